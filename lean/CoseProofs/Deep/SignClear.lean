/-
  CoseProofs.Deep.SignClear — two gaps closed for the multi-signer structure COSE_Sign (and for the
  stand-alone COSE_Signature / COSE_Countersignature):
    A. C09, the clear-raw fixpoint ("if the caller discards the retained raw bytes, the result is
       a canonical form: decoding and re-encoding it again changes nothing") for a DECODED
       COSE_Sign — body AND every signer slot — first with nested header values, then with
       countersignature-valued parameters (labels 7 / 11) at every level;
    B. C04 across the wire for the slots of a DECODED COSE_Sign and for a DECODED stand-alone
       countersignature: the verifier is reached only if the algorithm encoded in the RECEIVED
       protected bytes is the verifier's.
  Core Lean only; nothing outside this file is modified.  Everything is derived from "the decoder
  accepted it" plus the data-model predicates on the decoded maps.

  A, NESTED VALUES (`SignClear`, headline in `C09`)
    `SignClear.clearRawSig` / `clearRawSign`   `RawProtected = RawUnprotected = nil` in the body and
         in every signer slot.
    `SignClear.layer_clear`        ONE decoded header layer whose unprotected map item was met at
         depth `d`: cleared, it marshals to `pItem h.p` (`encBstr` of the canonical content) and
         `mapWireN h.u`; these decode to `canonP h.p` / `canonU h.u`; the canonical layer marshals
         to the same bytes.  Used with `d = 1` (body, stand-alone signature) and `d = 3` (slot).
    `SignClear.sigElem_clear`, `sigList_clear`   one decoded signer entry met at depth `d` / all
         entries of the signatures array (depth 2).
    `SignClear.sign_clear_raw_core_nested`      `Sign.marshal (clearRawSign m) = clearedBytes m`,
         which decodes to the EXPLICIT message `canonSignD m`, which, cleared, marshals to the same
         bytes.
    C09.sign_clear_raw_decodable_nested   `Sign.unmarshal b = .ok m`, `NestedMap m.h.p`,
         `NestedMapAt 2 m.h.u`, every slot `NestedMap s.h.p ∧ NestedMapAt 4 s.h.u` ⟹ the cleared
         message marshals to `b'`, which unmarshals to `m'`: same payload, as many slots, slot by
         slot the same signature, and `LayerCanon 2 m.h m'.h`, `LayerCanon 4 m.sigs[i].h
         m'.sigs[i].h` (maps `= (sortEntries ·).map decEntryN / normEntryN`, `Perm`, lookups under
         any spelling of a label, equal `Algorithm()`, again in the data model).
    C09.sign_clear_raw_fixpoint_nested    for ANY such `b'`, `m'`: clearing `m'` and marshalling
         gives `b'` again and `b'` decodes to `m'` again — ONE cycle reaches the fixpoint.
         C09.signClearCycle_idempotent_nested is the composed form.
    C09.signature_clear_raw_fixpoint_nested   the same (decodable + fixpoint in one statement) for a
         stand-alone decoded COSE_Signature / countersignature (`Signature.unmarshal`), depths 1 / 2.
  A, COUNTERSIGNATURE VALUES (`SignClearC`, headline in `C09`)
    `SignClearC.clearRawSigDeep` / `clearRawSignDeep`   additionally `CsigClosures.clearPairs` on
         every unprotected map: the raw buckets of every countersignature inside, at every level.
    `layer_clearC`, `sigElem_clearC`, `sigList_clearC`, `sign_clear_raw_core_csig`   as above with
         `umapWire` / `canonUC` (via `CsigClosures.unprotected_canonC`, hence `pc_all`).
    C09.sign_clear_raw_decodable_csig, C09.sign_clear_raw_fixpoint_csig,
    C09.signClearCycleDeep_idempotent_csig, C09.signature_clear_raw_fixpoint_csig
         hypotheses `NestedMap` for protected maps, `DMap 2` for the body's (and a stand-alone
         signature's) unprotected map, `DMap 4` for a slot's; conclusion `LayerCanonC` (unprotected
         values in the decoder's normal form `cnorm`).  `C09.clearRawSigDeep_of_nested`: on slots
         without countersignature values the deep clearing is the plain one.
  B (`C04`)
    `C04.verifyLoop_call`          THE CALL LIST: `verifyLoop` records the contents handed to the
         verifiers in order, one per invoked verifier, and stops at the first slot that does not
         verify; so `i < calls.length` ⟺ verifier `i` was invoked, and then every earlier slot
         verified, slot `i` handed over exactly one content and that is `calls[i]`.  This is how
         "the call list contains an entry for slot i" is stated (the model's call list is a plain
         `List Bytes`, not tagged by slot).
    `C04.sign_decoded_protected_bytes`   body and every slot of an accepted COSE_Sign: the retained
         raw protected bytes are a sub-slice of the input, ONE byte-string item whose content
         decoded to the typed map, re-emitted verbatim by `MarshalProtected`.
    C04.sign_verify_consults_wire_alg   `Sign.unmarshal b = .ok m`, `i < (Sign.verify m ext
         vs).2.length` ⟹ slot `i` exists, `b = pre ++ raw ++ rest`, `m.sigs[i].h.rawP = some raw`,
         `IsBstrEncoding raw content`, `decProtectedContent content = .ok pm`, `algorithmOf pm =
         .found vs[i].alg` (or `.notFound` with non-empty external data), every earlier slot
         verified, and `calls[i]` is the RFC 9052 Sig_structure over the received body protected
         content and exactly that slot content.  NO hypotheses beyond "decoded" and "called".
         C04.sign_verify_other_wire_alg_no_call (contrapositive: at most `i` calls, not ok),
         C04.sign_verify_ok_wire_alg (`Verify` nil ⟹ every slot's wire alg is its verifier's).
    C04.countersignature_verify_consults_wire_alg   decoded stand-alone countersignature, ANY
         parent: verifier reached ⟹ the received protected bytes name the verifier's algorithm,
         and the one content handed over is `countersignToBeSigned` over exactly those bytes.
         C04.countersignature_verify_other_wire_alg_no_call; C04.signature_verify_consults_wire_alg
         (a decoded stand-alone COSE_Signature under `Signature.Verify`).
  C. NON-VACUITY (`SignClearExamples`), every hypothesis discharged by computation
    `exSB` = `d8 62 84 46a20441310126 a0 43010203 81 83 5803a10126 a0 4107`: body protected bucket
       `{4: h'31', 1: -7}` with keys OUT OF ORDER, slot protected bucket under a NON-SHORTEST head.
       Decodes to `exSM`; cleared re-encoding `exSB'` = `… 46a20126044131 … 83 43a10126 …` ≠ `exSB`;
       `exSB'` decodes, same payload / signature / `Algorithm()`; clearing and encoding again gives
       `exSB'`; `signClearCycle exSB' = exSB'`.  The slot alone as a stand-alone COSE_Signature.
    `exSCB`: a COSE_Sign whose slot carries `{11: [cs1 (protected `58 03 a10126`), cs2]}`; deep
       clearing gives `exSCB' ≠ exSCB`, the slot decodes to `{11: [cs1N, cs2N]}`, fixpoint.
    B: `exV7` IS invoked for slot 0 of `exSM` (`exS_verify_calls`) and the theorem yields ES256 in
       the received bytes `58 03 a1 01 26`; an ES384 verifier is never invoked; the slot as a
       stand-alone countersignature on `exPar`.

  HYPOTHESES THAT REMAIN, AND WHY
    * A: ONLY the data-model predicates on the DECODED maps, at the depth the parser met the values:
      protected buckets `NestedMap` (depth 1: a byte string parsed on its own); body / stand-alone
      signature unprotected `NestedMapAt 2` (`DMap 2`); slot unprotected `NestedMapAt 4` (`DMap 4`:
      message array ∋ signatures array ∋ slot array ∋ map item, cf. `NestedClosures.NestedSlot`,
      `C01.signmsg_wire_nested_needs_depth4`).  They exclude floats, simple values other than
      false/true/null/undefined, duplicate keys inside nested maps; `DMap` additionally asks the
      retained `RawProtected` of every countersignature to be shorter than 2^64 bytes (true of every
      Go slice; see `Deep/CsigClosures`).  `UintOK`, sizes, validation, `ensureIV`,
      `modelledPairs`, non-empty signatures, `FlatLabel` are all derived from acceptance.
    * B: none.
  No target statement turned out false in the model and no counterexample resembling a library
  defect was found.  (Expected clear-raw behaviour, outside these statements: re-encoding a
  protected bucket whose CONTENT was not canonical — the body of `exSB`, keys out of order —
  changes the protected content, hence every `ToBeSigned` computed over it; a non-shortest HEAD
  alone — the slot of `exSB` — does not, `deterministicBinaryString` normalises it.)
  NOT DONE: a wire-side sufficient condition for the data-model hypotheses in the style of
  `C09.nested_of_plain_items`; the `r = some []` variant of clearing.
  Axioms: propext, Quot.sound, Classical.choice.
-/
import CoseProofs.Deep.CsigClosures
import CoseProofs.Deep.AlgWire
open CoseModel CoseSpec RoundTrip

/-! ## A. clear-raw for COSE_Sign / COSE_Signature, nested header values: tools -/

namespace SignClear
open WireClosure SignWireClosure NestedBuckets NestedClosures ClearRaw

/-! ### discarding the retained raw bytes -/

/-- `RawProtected = nil`, `RawUnprotected = nil` of one header layer -/
def clearH (h : Hdrs) : Hdrs := { rawP := none, p := h.p, rawU := none, u := h.u }

/-- a signer entry / stand-alone COSE_Signature with its retained raw header bytes discarded -/
def clearRawSig (s : SigV) : SigV := { h := clearH s.h, sig := s.sig }

/-- a COSE_Sign with the retained raw header bytes of the body AND of every signer slot
    discarded -/
def clearRawSign (m : SignMsg) : SignMsg :=
  { h := clearH m.h, payload := m.payload, sigs := m.sigs.map clearRawSig }

/-! ### what is emitted, and what it decodes to -/

/-- content of the protected byte string the encoder emits for a typed protected map -/
def pContent : GoMap → Bytes
  | [] => []
  | e :: es => (mapWireN (e :: es)).bytes

/-- the protected byte-string item the encoder emits -/
def pItem (p : GoMap) : Wire := .bstr (HW.shortest (pContent p).length) (pContent p)

theorem pItem_bytes (p : GoMap) : (pItem p).bytes = encBstr (pContent p) := rfl

/-- the canonical header layer, no retained raw bytes -/
def canonH (h : Hdrs) : Hdrs := { p := canonP h.p, u := canonU h.u }

/-- the canonical header layer AS DECODED from the re-encoding: raw buckets = the emitted items -/
def canonHD (h : Hdrs) : Hdrs :=
  { rawP := some (pItem h.p).bytes, p := canonP h.p, rawU := some (mapWireN h.u).bytes,
    u := canonU h.u }

theorem clearH_canonHD (h : Hdrs) : clearH (canonHD h) = canonH h := rfl

def canonS (s : SigV) : SigV := { h := canonH s.h, sig := s.sig }
def canonSD (s : SigV) : SigV := { h := canonHD s.h, sig := s.sig }

theorem clearRawSig_canonSD (s : SigV) : clearRawSig (canonSD s) = canonS s := rfl

/-- the COSE_Signature item the encoder emits for a cleared decoded entry -/
def sigItem (s : SigV) : Wire := .arr .imm [pItem s.h.p, mapWireN s.h.u, C09.shortItem s.sig]

/-- the message decoded from the re-encoding of the cleared message -/
def canonSignD (m : SignMsg) : SignMsg :=
  { h := canonHD m.h, payload := m.payload, sigs := m.sigs.map canonSD }

theorem clearRawSign_canonSignD (m : SignMsg) :
    clearRawSign (canonSignD m)
      = { h := canonH m.h, payload := m.payload, sigs := m.sigs.map canonS } := by
  simp only [clearRawSign, canonSignD, clearH_canonHD, List.map_map]
  congr 1

/-! ### one header layer -/

/-- ONE DECODED HEADER LAYER whose unprotected map item `u` was met at depth `d`: with the raw
    bytes discarded it marshals to the items `pItem h.p`, `mapWireN h.u`; these are well formed,
    within the limits at the same depth, decode to the canonical maps, and the canonical layer
    marshals to the same bytes -/
theorem layer_clear {d : Nat} {p u : Wire} {h : Hdrs}
    (hp : decProtected p = .ok h.p) (hu : decUnprot u = .ok h.u) (hiv : ensureIV h.p h.u = true)
    (hpwf : p.wf = true) (hulim : u.inLimits false d = true)
    (hfp : NestedMap h.p) (hfu : NestedMapAt (d + 1) h.u) :
    marshalProtected (clearH h) = .ok (pItem h.p).bytes ∧
    marshalUnprotected (clearH h) = .ok (mapWireN h.u).bytes ∧
    (pItem h.p).wf = true ∧ (mapWireN h.u).wf = true ∧
    (mapWireN h.u).inLimits false d = true ∧
    decProtected (pItem h.p) = .ok (canonP h.p) ∧ decUnprot (mapWireN h.u) = .ok (canonU h.u) ∧
    ensureIV (canonP h.p) (canonU h.u) = true ∧
    marshalProtected (canonH h) = .ok (pItem h.p).bytes ∧
    marshalUnprotected (canonH h) = .ok (mapWireN h.u).bytes := by
  obtain ⟨hwp, enc, rfl, -⟩ := C05.protected_is_bstr_of_map p _ hp
  have hpc : decProtectedContent enc = .ok h.p := hp
  obtain ⟨hwu, kvs, rfl⟩ := C05.unprotected_is_map u _ hu
  have hd1 : d + 1 ≤ maxNested := by
    simp only [Wire.inLimits, Bool.and_eq_true, decide_eq_true_eq] at hulim
    exact hulim.1.1
  have hvp := C13.decoded_reencodable enc _ hpc
  have hvu := C13.decoded_unprot_reencodable _ _ hu
  obtain ⟨content, hE1, hc0, hc1, hD, hE2⟩ :=
    protected_canonN hfp (protected_decoded_uintOK hpc) hvp (protected_decoded_length hpc)
  have hcc : content = pContent h.p := by
    cases hm : h.p with
    | nil => rw [hc0 hm]; rfl
    | cons e es => rw [hc1 (by rw [hm]; exact List.cons_ne_nil _ _), hm]; rfl
  subst hcc
  have hle : (pContent h.p).length ≤ enc.length := by
    by_cases hne : h.p = []
    · rw [hc0 hne]; simp
    · rw [hc1 hne]; exact protected_decoded_bytes_leN hpc hfp hne
  obtain ⟨hU1, hUwf, hUlim, hDu, hU2⟩ :=
    unprotected_canonN (d := d) hfu (unprotected_decoded_uintOK hu) hvu
      (unprotected_decoded_length hu hulim) hd1
  have hclen : (pContent h.p).length < 18446744073709551616 := by
    simp only [Wire.wf] at hpwf
    have := Reencode.fits_lt hpwf
    omega
  have hfp1 : NestedMap (canonP h.p) := nestedMapAt_decEntryN (NestedMapAt.sorted (d := 1) hfp)
  have hfu1 : NestedMapAt (d + 1) (canonU h.u) := nestedMapAt_normEntryN hfu.sorted
  refine ⟨marshalProtected_of_bucket rfl (nested_modelled hfp) hE1,
    marshalUnprotected_of_bucket rfl (nested_modelled hfu) hU1,
    Reencode.shortest_fits hclen, hUwf, hUlim false d (Nat.le_refl _), hD, hDu,
    ensureIV_decodedN (dp := 1) hfp hfu hiv,
    marshalProtected_of_bucket rfl (nested_modelled hfp1) hE2,
    marshalUnprotected_of_bucket rfl (nested_modelled hfu1) hU2⟩

/-! ### one signer entry -/

theorem signature_marshal_of_buckets {s : SigV} {P U : Bytes} (hz : blen s.sig ≠ 0)
    (hiv : ensureIV s.h.p s.h.u = true) (hP : marshalProtected s.h = .ok P)
    (hU : marshalUnprotected s.h = .ok U) :
    Signature.marshal s = .ok (0x83 :: (P ++ (U ++ encBstr (s.sig.getD [])))) := by
  simp [Signature.marshal, Hdrs.marshal, hz, hiv, hP, hU, bind, Out.bind]

theorem sign_marshal_of_buckets {m : SignMsg} {P U ss : Bytes} (hne : m.sigs ≠ [])
    (hiv : ensureIV m.h.p m.h.u = true) (hP : marshalProtected m.h = .ok P)
    (hU : marshalUnprotected m.h = .ok U) (hs : marshalSigs m.sigs = .ok ss) :
    Sign.marshal m = .ok (0xd8 :: 0x62 :: 0x84 :: (P ++ (U ++ (optBytesEnc m.payload ++
      (encHead 4 m.sigs.length ++ ss))))) := by
  have hemp : m.sigs.isEmpty = false := by
    cases hl : m.sigs with
    | nil => exact absurd hl hne
    | cons a r => rfl
  simp [Sign.marshal, Hdrs.marshal, hemp, hiv, hP, hU, hs, bind, Out.bind]

theorem sigItem_bytes (s : SigV) (hz : blen s.sig ≠ 0) :
    (sigItem s).bytes
      = 0x83 :: ((pItem s.h.p).bytes ++ ((mapWireN s.h.u).bytes ++ encBstr (s.sig.getD []))) := by
  obtain ⟨c, -, hs⟩ := C09.sig_some hz
  rw [sigItem, Accept.arr3_bytes, hs]

/-- ONE DECODED SIGNER ENTRY whose 3-array `x` was met at depth `d` (its unprotected map item at
    depth `d + 1`, the values in it at depth `d + 2`): with the raw bytes discarded it is emitted
    as the item `sigItem s`, well formed, within the limits at depth `d`, which the per-signer
    decoder reads back as `canonSD s`; and the canonical entry is emitted as the same bytes -/
theorem sigElem_clear {d : Nat} {x : Wire} {s : SigV} (hel : C05.SigElem x s) (hwf : x.wf = true)
    (hlim : x.inLimits false d = true) (hfp : NestedMap s.h.p) (hfu : NestedMapAt (d + 2) s.h.u) :
    Signature.marshal (clearRawSig s) = .ok (sigItem s).bytes ∧ (sigItem s).wf = true ∧
      (sigItem s).inLimits false d = true ∧ C05.SigElem (sigItem s) (canonSD s) ∧
      Signature.marshal (canonS s) = .ok (sigItem s).bytes := by
  obtain ⟨p, u, hw, c, rfl, hc, hs, hp, hu, hiv, -, -⟩ := C09.sigElem_shape hel
  have hz : blen s.sig ≠ 0 := by rw [hs]; exact C09.blen_some_ne hc
  simp only [Wire.wf, Wire.wfList, Bool.and_eq_true] at hwf
  obtain ⟨-, hpwf, huwf, hsgwf, -⟩ := hwf
  simp only [Wire.inLimits, Wire.inLimitsList, Bool.and_eq_true, decide_eq_true_eq] at hlim
  obtain ⟨⟨hd1, -⟩, -, hulim, -⟩ := hlim
  obtain ⟨hP1, hU1, hPwf, hUwf, hUlim, hD, hDu, hiv', hP2, hU2⟩ :=
    layer_clear (d := d + 1) hp hu hiv hpwf hulim hfp hfu
  have hsgfit : (HW.shortest c.length).fits c.length = true :=
    Reencode.shortest_fits (Reencode.fits_lt hsgwf)
  have hwfT : (sigItem s).wf = true := by
    have h3 : HW.fits .imm 3 = true := by decide
    simp [sigItem, hs, C09.shortItem, Wire.wf, Wire.wfList, h3, hPwf, hUwf, hsgfit]
  have hlimT : (sigItem s).inLimits false d = true := by
    simp [sigItem, Wire.inLimits, Wire.inLimitsList, hd1, maxElems, hUlim, pItem,
      C09.shortItem_inLimits]
  refine ⟨?_, hwfT, hlimT, ?_, ?_⟩
  · rw [sigItem_bytes s hz]
    exact signature_marshal_of_buckets (s := clearRawSig s) hz hiv hP1 hU1
  · exact ⟨_, _, _, rfl, hD, hDu, hiv', rfl, rfl, C09.shortItem_dec _, hz⟩
  · rw [sigItem_bytes s hz]
    exact signature_marshal_of_buckets (s := canonS s) hz hiv' hP2 hU2

/-- a well-formed top-level item that is a signer entry with value `s` is accepted by
    `Signature.unmarshal` with that value -/
theorem signature_unmarshal_of_sigElem {x : Wire} {s : SigV} (hel : C05.SigElem x s)
    (hwf : x.wf = true) (hlim : x.inLimits false 0 = true) :
    Signature.unmarshal x.bytes = .ok s := by
  obtain ⟨p, u, hw, c, rfl, hc, hs, hp, hu, hiv, hrp, hru⟩ := C09.sigElem_shape hel
  rw [C07.wf_signature_accepted_full hwf hlim hp hu hiv hc]
  obtain ⟨⟨rp, pm, ru, um⟩, sig⟩ := s
  simp only at hs hrp hru
  subst hs hrp hru
  rfl

/-- ALL SIGNER ENTRIES of a decoded COSE_Sign (each met at depth 2) -/
theorem sigList_clear : ∀ (xs : List Wire) (l : List SigV), decSigList xs = .ok l →
    Wire.wfList xs = true → Wire.inLimitsList false 2 xs = true →
    (∀ s ∈ l, NestedMap s.h.p ∧ NestedMapAt 4 s.h.u) →
    marshalSigs (l.map clearRawSig) = .ok (Wire.bytesList (l.map sigItem)) ∧
      Wire.wfList (l.map sigItem) = true ∧ Wire.inLimitsList false 2 (l.map sigItem) = true ∧
      decSigList (l.map sigItem) = .ok (l.map canonSD) ∧
      marshalSigs (l.map canonS) = .ok (Wire.bytesList (l.map sigItem))
  | [], l, h, _, _, _ => by
    rw [C05.decSigList_nil] at h
    cases h
    exact ⟨rfl, rfl, rfl, C05.decSigList_nil, rfl⟩
  | x :: xs, l, h, hwf, hlim, hsl => by
    obtain ⟨s, r, hel, hr, rfl⟩ := C05.decSigList_cons_elem h
    simp only [Wire.wfList, Bool.and_eq_true] at hwf
    simp only [Wire.inLimitsList, Bool.and_eq_true] at hlim
    obtain ⟨hfp, hfu⟩ := hsl s (List.mem_cons_self ..)
    obtain ⟨a1, a2, a3, a4, a5⟩ := sigElem_clear (d := 2) hel hwf.1 hlim.1 hfp hfu
    obtain ⟨b1, b2, b3, b4, b5⟩ := sigList_clear xs r hr hwf.2 hlim.2
      (fun t ht => hsl t (List.mem_cons_of_mem _ ht))
    refine ⟨?_, ?_, ?_, ?_, ?_⟩
    · simp [marshalSigs, a1, b1, Wire.bytesList, bind, Out.bind]
    · simp [Wire.wfList, a2, b2]
    · simp [Wire.inLimitsList, a3, b3]
    · exact C09.decSigList_cons_of a4 b4
    · simp [marshalSigs, a5, b5, Wire.bytesList, bind, Out.bind]

/-! ### the message -/

/-- the bytes one clear-raw cycle of a decoded COSE_Sign emits -/
def clearedBytes (m : SignMsg) : Bytes :=
  0xd8 :: 0x62 :: (signTree (pItem m.h.p) (mapWireN m.h.u) m.payload (m.sigs.map sigItem)).bytes

/-- CORE: a decoded COSE_Sign whose header values (body and every signer slot) are in the nested
    data model, all retained raw header bytes discarded, is emitted as `clearedBytes m`, which
    decodes to `canonSignD m`; and THAT message, raw bytes discarded, is emitted as the same bytes
    again -/
theorem sign_clear_raw_core_nested (b : Bytes) (m : SignMsg) (hd : Sign.unmarshal b = .ok m)
    (hfp : NestedMap m.h.p) (hfu : NestedMapAt 2 m.h.u)
    (hslots : ∀ s ∈ m.sigs, NestedMap s.h.p ∧ NestedMapAt 4 s.h.u) :
    Sign.marshal (clearRawSign m) = .ok (clearedBytes m) ∧
      Sign.unmarshal (clearedBytes m) = .ok (canonSignD m) ∧
      Sign.marshal (clearRawSign (canonSignD m)) = .ok (clearedBytes m) := by
  obtain ⟨hws, p, u, pl, sgs, -, -, hwf, -, hlim, hpl, hh, hne, hs⟩ :=
    C05.sign_accept_envelope_full hd
  obtain ⟨hp, hu, hiv, -, -⟩ := C09.decHeaders_ok hh
  obtain ⟨hlen, -⟩ := C05.decSigList_ok sgs m.sigs hs
  simp only [Wire.wf, Wire.wfList, Bool.and_eq_true] at hwf
  obtain ⟨-, hpwf, huwf, hplwf, ⟨hsfit, hswf⟩, -⟩ := hwf
  simp only [Wire.inLimits, Wire.inLimitsList, Bool.and_eq_true, decide_eq_true_eq] at hlim
  obtain ⟨-, -, hulim, -, ⟨⟨-, hslen⟩, hslim⟩, -⟩ := hlim
  obtain ⟨hP1, hU1, hPwf, hUwf, hUlim, hD, hDu, hiv', hP2, hU2⟩ :=
    layer_clear (d := 1) hp hu hiv hpwf hulim hfp hfu
  obtain ⟨b1, b2, b3, b4, b5⟩ := sigList_clear sgs m.sigs hs hswf hslim hslots
  have hmne : m.sigs ≠ [] := by
    intro hc
    rw [hc] at hlen
    exact hne (List.eq_nil_of_length_eq_zero hlen.symm)
  have hxn : m.sigs.map sigItem ≠ [] := fun hc => hmne (List.map_eq_nil_iff.mp hc)
  have hwfT : (signTree (pItem m.h.p) (mapWireN m.h.u) m.payload (m.sigs.map sigItem)).wf
      = true := by
    have h4 : HW.fits .imm 4 = true := by decide
    have hnf : (HW.shortest m.sigs.length).fits m.sigs.length = true :=
      Reencode.shortest_fits (by rw [hlen]; exact Reencode.fits_lt hsfit)
    simp [signTree, Wire.wf, Wire.wfList, h4, hPwf, hUwf, C09.shortItem_wf hplwf hpl, hnf, b2]
  have hlimT : (signTree (pItem m.h.p) (mapWireN m.h.u) m.payload
      (m.sigs.map sigItem)).inLimits false 0 = true := by
    have hxl : (m.sigs.map sigItem).length ≤ maxElems := by
      rw [List.length_map, hlen]; exact hslen
    simp [signTree, Wire.inLimits, Wire.inLimitsList, maxNested, hUlim, C09.shortItem_inLimits,
      b3, pItem]
    constructor
    · unfold maxElems; omega
    · simpa using hxl
  have hpt := parseTop_complete hwfT hlimT
  have hbytes : ∀ (l' : List SigV), l'.length = m.sigs.length →
      0xd8 :: 0x62 :: 0x84 :: ((pItem m.h.p).bytes ++ ((mapWireN m.h.u).bytes ++
        (optBytesEnc m.payload ++ (encHead 4 l'.length ++ Wire.bytesList (m.sigs.map sigItem)))))
      = clearedBytes m := by
    intro l' hl'
    rw [clearedBytes, signTree_bytes, List.length_map, hl']
  rw [signTree_bytes] at hpt
  refine ⟨?_, ?_, ?_⟩
  · rw [← hbytes (m.sigs.map clearRawSig) (List.length_map _)]
    exact sign_marshal_of_buckets (m := clearRawSign m)
      (fun hc => hmne (List.map_eq_nil_iff.mp hc)) hiv hP1 hU1 b1
  · rw [clearedBytes, signTree_bytes]
    exact C09.sign_unmarshal_of hpt (C09.shortItem_dec m.payload) hxn b4
      (C09.decHeaders_of hD hDu hiv')
  · rw [clearRawSign_canonSignD, ← hbytes (m.sigs.map canonS) (List.length_map _)]
    exact sign_marshal_of_buckets
      (m := { h := canonH m.h, payload := m.payload, sigs := m.sigs.map canonS })
      (fun hc => hmne (List.map_eq_nil_iff.mp hc)) hiv' hP2 hU2 b5

end SignClear

/-! ## A. headline theorems: clear-raw fixpoint for COSE_Sign and COSE_Signature, nested values -/

namespace SignClear
open WireClosure SignWireClosure NestedBuckets NestedClosures ClearRaw

/-- what ONE clear-raw cycle makes of a decoded header layer `h` (`h'` = the layer decoded from
    the re-encoding; unprotected values met at depth `d`): the same parameters in both buckets —
    entries in the encoder's order, maps nested inside values sorted (`decEntryN` / `normEntryN`)
    — every lookup agrees up to that normalisation, `Algorithm()` agrees, and the new maps are
    again in the data model -/
def LayerCanon (d : Nat) (h h' : Hdrs) : Prop :=
  h'.p = (sortEntries h.p).map decEntryN ∧ h'.u = (sortEntries h.u).map normEntryN ∧
  h'.p.Perm (h.p.map decEntryN) ∧ h'.u.Perm (h.u.map normEntryN) ∧
  (∀ e ∈ h.p, ∀ l, normalizeLabel l = normalizeLabel e.1 →
    lookupLabel h.p l = some e.2 ∧ lookupLabel h'.p l = some (decEntryN e).2) ∧
  (∀ e ∈ h.u, ∀ l, normalizeLabel l = normalizeLabel e.1 →
    lookupLabel h.u l = some e.2 ∧ lookupLabel h'.u l = some (normValN e.2)) ∧
  algorithmOf h'.p = algorithmOf h.p ∧ NestedMap h'.p ∧ NestedMapAt d h'.u

theorem layerCanon_of_decoded {d : Nat} {p u : Wire} {h : Hdrs}
    (hp : decProtected p = .ok h.p) (hu : decUnprot u = .ok h.u)
    (hfp : NestedMap h.p) (hfu : NestedMapAt (d + 1) h.u) : LayerCanon (d + 1) h (canonHD h) := by
  obtain ⟨hwp, enc, rfl, -⟩ := C05.protected_is_bstr_of_map p _ hp
  have hpc : decProtectedContent enc = .ok h.p := hp
  have hvp := C13.decoded_reencodable enc _ hpc
  have hvu := C13.decoded_unprot_reencodable u _ hu
  refine ⟨rfl, rfl, (sortEntries_perm _).map decEntryN, (sortEntries_perm _).map normEntryN,
    ?_, ?_, algorithmOf_canonP hpc hfp,
    nestedMapAt_decEntryN (NestedMapAt.sorted (d := 1) hfp), nestedMapAt_normEntryN hfu.sorted⟩
  · intro e he l hl
    exact C08.protected_lookup_roundtrip_nested h.p hfp hvp e he l hl
  · intro e he l hl
    exact C08.unprotected_lookup_roundtrip_nested h.u
      (NestedMapAt.mono (d := d + 1) (d' := 1) (by omega) hfu) hvu e he l hl

end SignClear

namespace C09
open WireClosure SignWireClosure NestedBuckets NestedClosures ClearRaw SignClear

/-- S1-N. CLEAR-RAW, DECODABLE, COSE_Sign, NESTED HEADER VALUES.  A COSE_Sign the library decoded,
    whose decoded header values are in the nested data model — body protected and every slot's
    protected at depth 1 (`NestedMap`), body unprotected at depth 2, every slot's unprotected at
    depth 4 (where the parser met them) — is re-encodable after the application discards the
    retained raw header bytes of the body AND of every signer slot (`clearRawSign`), and what is
    emitted is decodable again: same payload, as many signer entries, entry by entry the same
    signature, and in the body and in every slot the same header parameters in canonical form
    (`LayerCanon`). -/
theorem sign_clear_raw_decodable_nested (b : Bytes) (m : SignMsg) (hd : Sign.unmarshal b = .ok m)
    (hfp : NestedMap m.h.p) (hfu : NestedMapAt 2 m.h.u)
    (hslots : ∀ s ∈ m.sigs, NestedMap s.h.p ∧ NestedMapAt 4 s.h.u) :
    ∃ b', Sign.marshal (clearRawSign m) = .ok b' ∧
      ∃ m', Sign.unmarshal b' = .ok m' ∧ m'.payload = m.payload ∧ LayerCanon 2 m.h m'.h ∧
        m'.sigs.length = m.sigs.length ∧
        ∀ i (h1 : i < m.sigs.length) (h2 : i < m'.sigs.length),
          m'.sigs[i].sig = m.sigs[i].sig ∧ LayerCanon 4 m.sigs[i].h m'.sigs[i].h := by
  obtain ⟨h1, h2, -⟩ := sign_clear_raw_core_nested b m hd hfp hfu hslots
  obtain ⟨hws, p, u, pl, sgs, -, -, -, -, -, -, hh, -, hs⟩ := C05.sign_accept_envelope_full hd
  obtain ⟨hp, hu, -, -, -⟩ := C09.decHeaders_ok hh
  obtain ⟨hlen, hidx⟩ := C05.decSigList_ok sgs m.sigs hs
  refine ⟨_, h1, _, h2, rfl, layerCanon_of_decoded (d := 1) hp hu hfp hfu,
    by simp [canonSignD], ?_⟩
  intro i hi hi'
  obtain ⟨pi, ui, sgi, -, hpi, hui, -⟩ := hidx i (hlen ▸ hi) hi
  obtain ⟨hfpi, hfui⟩ := hslots _ (List.getElem_mem hi)
  simp only [canonSignD, List.getElem_map]
  exact ⟨rfl, layerCanon_of_decoded (d := 3) hpi hui hfpi hfui⟩

/-- S2-N. CLEAR-RAW, FIXPOINT, COSE_Sign, NESTED HEADER VALUES.  With `b'`, `m'` as in S1-N (ANY
    result of encoding the cleared message and decoding that): discarding the raw bytes of `m'`
    (body and every slot) and encoding again gives `b'` again — the canonical form is reached
    after ONE cycle — and decoding it gives `m'` again (exactly, raw fields included). -/
theorem sign_clear_raw_fixpoint_nested (b : Bytes) (m : SignMsg) (hd : Sign.unmarshal b = .ok m)
    (hfp : NestedMap m.h.p) (hfu : NestedMapAt 2 m.h.u)
    (hslots : ∀ s ∈ m.sigs, NestedMap s.h.p ∧ NestedMapAt 4 s.h.u)
    (b' : Bytes) (m' : SignMsg) (he : Sign.marshal (clearRawSign m) = .ok b')
    (hd' : Sign.unmarshal b' = .ok m') :
    ∃ b'', Sign.marshal (clearRawSign m') = .ok b'' ∧ b'' = b' ∧ Sign.unmarshal b'' = .ok m' := by
  obtain ⟨h1, h2, h3⟩ := sign_clear_raw_core_nested b m hd hfp hfu hslots
  have hb : clearedBytes m = b' := Out.ok.inj (h1.symm.trans he)
  subst hb
  rw [h2] at hd'
  cases hd'
  exact ⟨_, h3, rfl, h2⟩

/-- one decode / discard-raw (body and slots) / encode cycle of a COSE_Sign -/
def signClearCycle (b : Bytes) : Out Bytes := do
  let m ← Sign.unmarshal b
  Sign.marshal (clearRawSign m)

/-- S2'-N. the cycle is idempotent on inputs whose decoded header values are in the nested data
    model -/
theorem signClearCycle_idempotent_nested (b b1 : Bytes)
    (hnest : ∀ m, Sign.unmarshal b = .ok m → NestedMap m.h.p ∧ NestedMapAt 2 m.h.u ∧
      ∀ s ∈ m.sigs, NestedMap s.h.p ∧ NestedMapAt 4 s.h.u)
    (h : signClearCycle b = .ok b1) : signClearCycle b1 = .ok b1 := by
  unfold signClearCycle at h ⊢
  cases hd : Sign.unmarshal b with
  | ok m =>
    simp only [hd, bind, Out.bind] at h
    obtain ⟨hfp, hfu, hslots⟩ := hnest m hd
    obtain ⟨h1, h2, h3⟩ := sign_clear_raw_core_nested b m hd hfp hfu hslots
    have hb : clearedBytes m = b1 := Out.ok.inj (h1.symm.trans h)
    subst hb
    simp only [h2, bind, Out.bind]
    exact h3
  | err e => simp [hd, bind, Out.bind] at h
  | panic => simp [hd, bind, Out.bind] at h
  | unmodelled => simp [hd, bind, Out.bind] at h

/-- S3-N. CLEAR-RAW for a STAND-ALONE decoded COSE_Signature / COSE_Countersignature
    (`Signature.unmarshal`; a top-level 3-array: protected values at depth 1, unprotected values
    at depth 2), decodable AND fixpoint: with the retained raw header bytes discarded it is
    re-encodable, the result decodes to `s'` with the same signature and the header parameters in
    canonical form, and `s'`, raw bytes discarded, encodes to the same bytes again. -/
theorem signature_clear_raw_fixpoint_nested (b : Bytes) (s : SigV)
    (hd : Signature.unmarshal b = .ok s) (hfp : NestedMap s.h.p) (hfu : NestedMapAt 2 s.h.u) :
    ∃ b', Signature.marshal (clearRawSig s) = .ok b' ∧
      ∃ s', Signature.unmarshal b' = .ok s' ∧ s'.sig = s.sig ∧ LayerCanon 2 s.h s'.h ∧
        Signature.marshal (clearRawSig s') = .ok b' := by
  obtain ⟨p, u, sg, -, -, hwf, hlim, -, hsg, hz, hp, hu, hiv, hrp, hru⟩ :=
    C05.signature_accept_envelope_full b s hd
  have hel : C05.SigElem (.arr .imm [p, u, sg]) s := ⟨p, u, sg, rfl, hp, hu, hiv, hrp, hru, hsg, hz⟩
  obtain ⟨a1, a2, a3, a4, a5⟩ := sigElem_clear (d := 0) hel hwf hlim hfp hfu
  exact ⟨_, a1, _, signature_unmarshal_of_sigElem a4 a2 a3, rfl,
    layerCanon_of_decoded (d := 1) hp hu hfp hfu, a5⟩

end C09

/-! ## B. C04 across the wire: decoded COSE_Sign slots, decoded countersignatures -/

namespace C04
open WireClosure SignWireClosure NestedBuckets NestedClosures

/-! ### what reaches the verifiers -/

/-- what `Signature.verify` handed to the verifier, if anything: exactly one content, the
    `ToBeSigned` of the entry -/
theorem verifySig_call (sg : SigV) (v : Verifier) (bprot : Bytes) (payload ext : Option Bytes)
    (h : (Signature.verify sg v bprot payload ext).2 ≠ []) :
    ∃ tbs, (Signature.verify sg v bprot payload ext).2 = [tbs] ∧
      Signature.toBeSigned sg bprot payload ext = .ok tbs ∧ payload.isSome = true := by
  unfold Signature.verify at h ⊢
  by_cases hp : payload.isNone
  · simp [hp] at h
  · by_cases hs : blen sg.sig = 0
    · simp [hp, hs] at h
    · by_cases hb : bodyProtOK bprot
      · simp only [hp, hs, hb, if_false, Bool.false_eq_true, Bool.not_true] at h ⊢
        have hsome : payload.isSome = true := by cases payload <;> simp_all
        cases hg : ensureVerificationAlgorithm sg.h.p v.alg ext with
        | ok u =>
          simp only [hg] at h ⊢
          cases ht : Signature.toBeSigned sg bprot payload ext with
          | ok tbs => exact ⟨tbs, rfl, rfl, hsome⟩
          | err e => simp [ht] at h
          | panic => simp [ht] at h
          | unmodelled => simp [ht] at h
        | err e => simp [hg] at h
        | panic => simp [hg] at h
        | unmodelled => simp [hg] at h
      · simp [hp, hs, hb] at h

/-- the same for `Countersignature.verify` -/
theorem verifyCsig_call (cs : SigV) (v : Verifier) (parent : Parent) (ext : Option Bytes)
    (h : (Countersignature.verify cs v parent ext).2 ≠ []) :
    ∃ tbs, (Countersignature.verify cs v parent ext).2 = [tbs] ∧
      Countersignature.toBeSigned cs parent ext = .ok tbs := by
  unfold Countersignature.verify at h ⊢
  by_cases hs : blen cs.sig = 0
  · simp [hs] at h
  · simp only [hs, if_false] at h ⊢
    cases hg : ensureVerificationAlgorithm cs.h.p v.alg ext with
    | ok u =>
      simp only [hg] at h ⊢
      cases ht : Countersignature.toBeSigned cs parent ext with
      | ok tbs => exact ⟨tbs, rfl, rfl⟩
      | err e => simp [ht] at h
      | panic => simp [ht] at h
      | unmodelled => simp [ht] at h
    | err e => simp [hg] at h
    | panic => simp [hg] at h
    | unmodelled => simp [hg] at h

/-- THE CALL LIST OF THE VERIFICATION LOOP.  `verifyLoop` records the contents handed to the
    verifiers in order, one per slot, and stops at the first slot that does not verify.  So the
    list has an `i`-th entry exactly when verifier `i` was invoked: then every earlier slot
    verified, slot `i` handed its verifier exactly one content `t`, and `t` is that entry. -/
theorem verifyLoop_call (bprot : Bytes) (payload ext : Option Bytes) :
    ∀ (sgs : List SigV) (vs : List Verifier) (i : Nat),
      i < (verifyLoop bprot payload ext sgs vs).2.length →
      ∃ (h1 : i < sgs.length) (h2 : i < vs.length) (t : Bytes),
        (Signature.verify sgs[i] vs[i] bprot payload ext).2 = [t] ∧
        (verifyLoop bprot payload ext sgs vs).2[i]? = some t ∧
        ∀ j (hj : j < i), (Signature.verify (sgs[j]'(by omega)) (vs[j]'(by omega)) bprot payload
          ext).1 = .ok ()
  | [], _, i, h => by simp [verifyLoop] at h
  | _ :: _, [], i, h => by simp [verifyLoop] at h
  | sg :: sgs, v :: vs, i, h => by
    unfold verifyLoop at h ⊢
    rcases C20.verifySig_calls sg v bprot payload ext with ⟨hc, hne⟩ | ⟨t, hc, hr⟩
    · -- nothing handed to verifier 0: the loop stops with an empty list
      cases hv : Signature.verify sg v bprot payload ext with
      | mk o calls =>
        rw [hv] at hc hne
        simp only at hc hne
        subst hc
        cases o with
        | ok u => cases u; exact absurd rfl hne
        | err e => simp [hv] at h
        | panic => simp [hv] at h
        | unmodelled => simp [hv] at h
    · cases hv : Signature.verify sg v bprot payload ext with
      | mk o calls =>
        rw [hv] at hc hr
        simp only at hc hr
        subst hc
        cases o with
        | ok u =>
          simp only [hv, List.cons_append, List.nil_append, List.length_cons] at h ⊢
          cases i with
          | zero =>
            refine ⟨by simp, by simp, t, ?_, by simp, fun j hj => absurd hj (Nat.not_lt_zero _)⟩
            simp [hv]
          | succ k =>
            obtain ⟨h1, h2, t', ha, hb, hall⟩ :=
              verifyLoop_call bprot payload ext sgs vs k (by omega)
            refine ⟨by simp; omega, by simp; omega, t', by simpa using ha, by simpa using hb, ?_⟩
            intro j hj
            cases j with
            | zero => cases u; simp [hv]
            | succ j' => simpa using hall j' (by omega)
        | err e =>
          simp only [hv, List.length_cons, List.length_nil] at h ⊢
          have hi : i = 0 := by omega
          subst hi
          exact ⟨by simp, by simp, t, by simp [hv], by simp,
            fun j hj => absurd hj (Nat.not_lt_zero _)⟩
        | panic =>
          simp only [hv, List.length_cons, List.length_nil] at h ⊢
          have hi : i = 0 := by omega
          subst hi
          exact ⟨by simp, by simp, t, by simp [hv], by simp,
            fun j hj => absurd hj (Nat.not_lt_zero _)⟩
        | unmodelled =>
          simp only [hv, List.length_cons, List.length_nil] at h ⊢
          have hi : i = 0 := by omega
          subst hi
          exact ⟨by simp, by simp, t, by simp [hv], by simp,
            fun j hj => absurd hj (Nat.not_lt_zero _)⟩

/-- `Sign.verify` reaching any verifier: the argument checks passed and the call list is the
    loop's -/
theorem signVerify_call_inv (m : SignMsg) (ext : Option Bytes) (vs : List Verifier)
    (h : (Sign.verify m ext vs).2 ≠ []) :
    ∃ bprot, marshalProtected m.h = .ok bprot ∧ m.sigs.length = vs.length ∧
      Sign.verify m ext vs = verifyLoop bprot m.payload ext m.sigs vs := by
  unfold Sign.verify at h ⊢
  by_cases hp : m.payload.isNone
  · simp [hp] at h
  · by_cases he : m.sigs.isEmpty
    · simp [hp, he] at h
    · by_cases hl : m.sigs.length = vs.length
      · simp only [hp, he, hl, if_false, Bool.false_eq_true, ne_eq, not_true_eq_false] at h ⊢
        cases hb : marshalProtected m.h with
        | ok bprot => exact ⟨bprot, rfl, trivial, rfl⟩
        | err e => simp [hb] at h
        | panic => simp [hb] at h
        | unmodelled => simp [hb] at h
      · simp [hp, he, hl] at h

/-! ### the received protected bytes of a decoded layer -/

/-- one DECODED header layer (wire items `p`, `u`): the retained raw protected bytes are ONE
    byte-string item whose content `ProtectedHeader.UnmarshalCBOR` decoded to the typed map, and
    `MarshalProtected` re-emits them verbatim -/
theorem decoded_layer_protected {p : Wire} {h : Hdrs} (hp : decProtected p = .ok h.p)
    (hrp : h.rawP = some p.bytes) (hwf : p.wf = true) :
    ∃ content, IsBstrEncoding p.bytes content ∧ decProtectedContent content = .ok h.p ∧
      marshalProtected h = .ok p.bytes := by
  obtain ⟨hw, enc, rfl, -⟩ := C05.protected_is_bstr_of_map p _ hp
  exact ⟨enc, Verifies.isBstrEncoding_of_wf hwf, hp,
    Verifies.marshalProtected_raw hrp (C01.decProtected_modelled hp)⟩

theorem bytesList_split : ∀ (xs : List Wire) (i : Nat) (h : i < xs.length),
    ∃ a c, Wire.bytesList xs = a ++ (xs[i].bytes ++ c)
  | [], i, h => absurd h (Nat.not_lt_zero _)
  | x :: xs, 0, _ => ⟨[], Wire.bytesList xs, by simp [Wire.bytesList]⟩
  | x :: xs, i + 1, h => by
    obtain ⟨a, c, hac⟩ := bytesList_split xs i (by simpa using h)
    exact ⟨x.bytes ++ a, c, by simp [Wire.bytesList, hac]⟩

/-- what the decoder establishes about the protected buckets of an accepted COSE_Sign: body and
    every slot — the retained raw bytes are sub-slices of the input, each ONE byte-string item
    whose content decoded to the typed map, re-emitted verbatim by `MarshalProtected` -/
theorem sign_decoded_protected_bytes {b : Bytes} {m : SignMsg} (hd : Sign.unmarshal b = .ok m) :
    (∃ braw bcontent rest, b = 0xd8 :: 0x62 :: 0x84 :: (braw ++ rest) ∧ m.h.rawP = some braw ∧
      IsBstrEncoding braw bcontent ∧ decProtectedContent bcontent = .ok m.h.p ∧
      marshalProtected m.h = .ok braw) ∧
    ∀ i (hi : i < m.sigs.length), ∃ raw content pre rest, b = pre ++ (raw ++ rest) ∧
      m.sigs[i].h.rawP = some raw ∧ IsBstrEncoding raw content ∧
      decProtectedContent content = .ok m.sigs[i].h.p ∧
      marshalProtected m.sigs[i].h = .ok raw := by
  obtain ⟨hws, p, u, pl, sgs, hb, -, hwf, -, -, -, hh, -, hs⟩ := C05.sign_accept_envelope_full hd
  obtain ⟨hp, -, -, hrp, -⟩ := C09.decHeaders_ok hh
  obtain ⟨hlen, hidx⟩ := C05.decSigList_ok sgs m.sigs hs
  simp only [Wire.wf, Wire.wfList, Bool.and_eq_true] at hwf
  obtain ⟨-, hpwf, -, -, ⟨-, hswf⟩, -⟩ := hwf
  have h84 : headBytes 4 .imm 4 = [0x84] := by decide
  constructor
  · obtain ⟨c, hc, hdc, hmp⟩ := decoded_layer_protected hp hrp hpwf
    refine ⟨p.bytes, c, Wire.bytesList [u, pl, .arr hws sgs], ?_, hrp, hc, hdc, hmp⟩
    rw [hb]
    simp [Wire.bytes, Wire.bytesList, h84]
  · intro i hi
    have hi' : i < sgs.length := hlen ▸ hi
    obtain ⟨pi, ui, sgi, hx, hpi, -, -, hrpi, -, -, -⟩ := hidx i hi' hi
    have hxwf := (wfList_iff sgs).mp hswf _ (List.getElem_mem hi')
    rw [hx] at hxwf
    simp only [Wire.wf, Wire.wfList, Bool.and_eq_true] at hxwf
    obtain ⟨c, hc, hdc, hmp⟩ := decoded_layer_protected hpi hrpi hxwf.2.1
    obtain ⟨a, r, hsplit⟩ := bytesList_split sgs i hi'
    have h83 : headBytes 4 .imm 3 = [0x83] := by decide
    refine ⟨pi.bytes, c, 0xd8 :: 0x62 :: 0x84 :: (p.bytes ++ (u.bytes ++ (pl.bytes ++
      (headBytes 4 hws sgs.length ++ (a ++ [0x83]))))),
      Wire.bytesList [ui, sgi] ++ r, ?_, hrpi, hc, hdc, hmp⟩
    rw [hb]
    simp [Wire.bytes, Wire.bytesList, h84, hsplit, hx, h83]

/-! ### headline -/

/-- B1. "for a decoded message the alg consulted is the one encoded in the protected bytes that
    are signed", COSE_Sign, slot by slot.  For a DECODED COSE_Sign (`Sign.unmarshal b = .ok m`), if
    `Verify` invokes verifier `i` at all — its call list has an `i`-th entry (`verifyLoop_call`:
    one entry per invoked verifier, in order, stopping at the first slot that does not verify) —
    then slot `i`'s RECEIVED protected byte string `raw` (a sub-slice of the input, retained in
    `m.sigs[i].h.rawP`) has a content that `ProtectedHeader.UnmarshalCBOR` decodes to a map whose
    `Algorithm()` is `vs[i].alg` (or names none, and external data is non-empty); every earlier
    slot verified; and the content handed to verifier `i` is the RFC 9052 Sig_structure over
    exactly the received body protected content and that slot content.  No hypotheses beyond
    "decoded" and "verifier `i` was called". -/
theorem sign_verify_consults_wire_alg (b : Bytes) (m : SignMsg) (ext : Option Bytes)
    (vs : List Verifier) (hd : Sign.unmarshal b = .ok m) (i : Nat)
    (hcall : i < (Sign.verify m ext vs).2.length) :
    ∃ (h1 : i < m.sigs.length) (h2 : i < vs.length) (raw content pre rest : Bytes) (pm : GoMap),
      b = pre ++ (raw ++ rest) ∧ m.sigs[i].h.rawP = some raw ∧ IsBstrEncoding raw content ∧
      decProtectedContent content = .ok pm ∧
      (algorithmOf pm = .found vs[i].alg ∨
        (algorithmOf pm = .notFound ∧ (ext.getD []).length > 0)) ∧
      (∀ j (hj : j < i), ∃ bprot, marshalProtected m.h = .ok bprot ∧
        (Signature.verify (m.sigs[j]'(by omega)) (vs[j]'(by omega)) bprot m.payload ext).1
          = .ok ()) ∧
      ∃ braw bcontent pl, m.h.rawP = some braw ∧ IsBstrEncoding braw bcontent ∧
        m.payload = some pl ∧
        (Sign.verify m ext vs).2[i]?
          = some (detEnc (sigStructure bcontent content (ext.getD []) pl)) := by
  have hne : (Sign.verify m ext vs).2 ≠ [] := by
    intro hc
    rw [hc] at hcall
    exact absurd hcall (Nat.not_lt_zero _)
  obtain ⟨bprot, hbp, hl, hv⟩ := signVerify_call_inv m ext vs hne
  rw [hv] at hcall ⊢
  obtain ⟨h1, h2, t, hcalls, hget, hprev⟩ := verifyLoop_call bprot m.payload ext m.sigs vs i hcall
  obtain ⟨⟨braw, bcontent, -, -, hbrp, hbc, -, hbmp⟩, hslot⟩ := sign_decoded_protected_bytes hd
  obtain ⟨raw, content, pre, rest, hb, hrp, hc, hdc, hmp⟩ := hslot i h1
  have hcne : (Signature.verify m.sigs[i] vs[i] bprot m.payload ext).2 ≠ [] := by
    rw [hcalls]; exact List.cons_ne_nil _ _
  have hgate := (verify_gate_iff _ _ _).mp
    (signature_verify_call_implies_gate _ _ _ _ _ hcne)
  obtain ⟨tbs, hcalls', ht, hsome⟩ := verifySig_call _ _ _ _ _ hcne
  rw [hcalls] at hcalls'
  cases hcalls'
  obtain ⟨pl, hpl⟩ := C03.isSome_inv hsome
  obtain ⟨bc, raw', sc, hbc', -, hmp', hsc, -, rfl⟩ := C03.tbsSig_rfc_of_ok ht hpl
  rw [hmp] at hmp'
  cases hmp'
  have hbb : braw = bprot := Out.ok.inj (hbmp.symm.trans hbp)
  subst hbb
  have e1 := C03.isBstrEncoding_content_unique hc hsc
  have e2 := C03.isBstrEncoding_content_unique hbc hbc'
  subst e1 e2
  exact ⟨h1, h2, raw, content, pre, rest, m.sigs[i].h.p, hb, hrp, hc, hdc, hgate,
    fun j hj => ⟨braw, hbmp, hprev j hj⟩, braw, bcontent, pl, hbrp, hbc, hpl, hget⟩

/-- B1, contrapositive: a decoded COSE_Sign whose slot `i` names, in its received protected
    bytes, an integer algorithm other than `vs[i].alg` never reaches verifier `i` (nor any later
    one): the call list has at most `i` entries, and `Verify` does not succeed -/
theorem sign_verify_other_wire_alg_no_call (b : Bytes) (m : SignMsg) (ext : Option Bytes)
    (vs : List Verifier) (hd : Sign.unmarshal b = .ok m) (i : Nat) (h1 : i < m.sigs.length)
    (h2 : i < vs.length) (raw content : Bytes) (pm : GoMap) (c : Int)
    (hrp : m.sigs[i].h.rawP = some raw) (hc : IsBstrEncoding raw content)
    (hdc : decProtectedContent content = .ok pm) (ha : algorithmOf pm = .found c)
    (hne : c ≠ vs[i].alg) :
    (Sign.verify m ext vs).2.length ≤ i ∧ (Sign.verify m ext vs).1 ≠ .ok () := by
  have key : ∀ (raw' content' : Bytes) (pm' : GoMap), m.sigs[i].h.rawP = some raw' →
      IsBstrEncoding raw' content' → decProtectedContent content' = .ok pm' → pm' = pm := by
    intro raw' content' pm' hrp' hc' hdc'
    rw [hrp] at hrp'
    cases hrp'
    have := C03.isBstrEncoding_content_unique hc hc'
    subst this
    rw [hdc] at hdc'
    exact (Out.ok.inj hdc').symm
  constructor
  · apply Classical.byContradiction
    intro hlt
    obtain ⟨_, _, raw', content', _, _, pm', _, hrp', hc', hdc', hg, _⟩ :=
      sign_verify_consults_wire_alg b m ext vs hd i (by omega)
    rw [key raw' content' pm' hrp' hc' hdc', ha] at hg
    rcases hg with hg | ⟨hg, -⟩
    · exact hne (AlgLookup.found.inj hg)
    · cases hg
  · intro hok
    obtain ⟨-, -, -, bprot, -, hall⟩ := (C11.signmsg_verify_iff m ext vs).mp hok
    have hg := (verify_gate_iff _ _ _).mp
      ((C03.verifySig_iff _ _ _ _ _).mp (hall i h1 h2)).2.2.2.1
    obtain ⟨-, hslot⟩ := sign_decoded_protected_bytes hd
    obtain ⟨raw', content', -, -, -, hrp', hc', hdc', -⟩ := hslot i h1
    rw [← key raw' content' _ hrp' hc' hdc'] at ha
    rw [ha] at hg
    rcases hg with hg | ⟨hg, -⟩
    · exact hne (AlgLookup.found.inj hg)
    · cases hg

/-- B1, accepted messages: `Verify` returning nil on a decoded COSE_Sign implies that EVERY slot's
    received protected bytes name the algorithm of the verifier at that position (or none, with
    external data) -/
theorem sign_verify_ok_wire_alg (b : Bytes) (m : SignMsg) (ext : Option Bytes)
    (vs : List Verifier) (hd : Sign.unmarshal b = .ok m)
    (hok : (Sign.verify m ext vs).1 = .ok ()) :
    m.sigs.length = vs.length ∧
    ∀ i (h1 : i < m.sigs.length) (h2 : i < vs.length), ∃ raw content pm,
      m.sigs[i].h.rawP = some raw ∧ IsBstrEncoding raw content ∧
      decProtectedContent content = .ok pm ∧
      (algorithmOf pm = .found vs[i].alg ∨
        (algorithmOf pm = .notFound ∧ (ext.getD []).length > 0)) := by
  obtain ⟨-, -, hl, bprot, -, hall⟩ := (C11.signmsg_verify_iff m ext vs).mp hok
  refine ⟨hl, ?_⟩
  intro i h1 h2
  obtain ⟨-, hslot⟩ := sign_decoded_protected_bytes hd
  obtain ⟨raw, content, -, -, -, hrp, hc, hdc, -⟩ := hslot i h1
  exact ⟨raw, content, _, hrp, hc, hdc, (verify_gate_iff _ _ _).mp
    ((C03.verifySig_iff _ _ _ _ _).mp (hall i h1 h2)).2.2.2.1⟩

/-- what the decoder establishes about the protected bucket of an accepted stand-alone
    COSE_Signature / COSE_Countersignature -/
theorem signature_decoded_protected_bytes {b : Bytes} {s : SigV}
    (hd : Signature.unmarshal b = .ok s) :
    ∃ raw content rest, b = 0x83 :: (raw ++ rest) ∧ s.h.rawP = some raw ∧
      IsBstrEncoding raw content ∧ decProtectedContent content = .ok s.h.p ∧
      marshalProtected s.h = .ok raw := by
  obtain ⟨p, u, sg, -, hb, hwf, -, -, -, -, hp, -, -, hrp, -⟩ :=
    C05.signature_accept_envelope_full b s hd
  simp only [Wire.wf, Wire.wfList, Bool.and_eq_true] at hwf
  obtain ⟨c, hc, hdc, hmp⟩ := decoded_layer_protected hp hrp hwf.2.1
  refine ⟨p.bytes, c, Wire.bytesList [u, sg], ?_, hrp, hc, hdc, hmp⟩
  rw [hb, Accept.arr3_bytes]
  simp [Wire.bytesList]

/-- B2. the same for a DECODED stand-alone COSE_Countersignature (`Signature.unmarshal b = .ok
    cs`) verified against ANY parent: if `Countersignature.Verify` reaches the verifier at all,
    then the received protected byte string `raw` (a sub-slice of the input) has a content that
    decodes to a map whose `Algorithm()` is the verifier's (or names none, with non-empty external
    data), and the ONE content handed to the verifier is `countersignToBeSigned` over exactly
    those received bytes. -/
theorem countersignature_verify_consults_wire_alg (b : Bytes) (cs : SigV) (v : Verifier)
    (parent : Parent) (ext : Option Bytes) (hd : Signature.unmarshal b = .ok cs)
    (hcall : (Countersignature.verify cs v parent ext).2 ≠ []) :
    ∃ raw content rest pm tbs, b = 0x83 :: (raw ++ rest) ∧ cs.h.rawP = some raw ∧
      IsBstrEncoding raw content ∧ decProtectedContent content = .ok pm ∧
      (algorithmOf pm = .found v.alg ∨
        (algorithmOf pm = .notFound ∧ (ext.getD []).length > 0)) ∧
      (Countersignature.verify cs v parent ext).2 = [tbs] ∧
      countersignToBeSigned false parent raw ext = .ok tbs := by
  obtain ⟨raw, content, rest, hb, hrp, hc, hdc, hmp⟩ := signature_decoded_protected_bytes hd
  have hgate := (verify_gate_iff _ _ _).mp
    (countersignature_verify_call_implies_gate cs v parent ext hcall)
  obtain ⟨tbs, hcalls, ht⟩ := verifyCsig_call cs v parent ext hcall
  obtain ⟨sp, hsp, hct⟩ := C03.ctbs_of_ok ht
  rw [hmp] at hsp
  cases hsp
  exact ⟨raw, content, rest, cs.h.p, tbs, hb, hrp, hc, hdc, hgate, hcalls, hct⟩

/-- B2, contrapositive -/
theorem countersignature_verify_other_wire_alg_no_call (b : Bytes) (cs : SigV) (v : Verifier)
    (parent : Parent) (ext : Option Bytes) (hd : Signature.unmarshal b = .ok cs)
    (raw content : Bytes) (pm : GoMap) (c : Int) (hrp : cs.h.rawP = some raw)
    (hc : IsBstrEncoding raw content) (hdc : decProtectedContent content = .ok pm)
    (ha : algorithmOf pm = .found c) (hne : c ≠ v.alg) :
    (Countersignature.verify cs v parent ext).2 = [] ∧
      (Countersignature.verify cs v parent ext).1 ≠ .ok () := by
  obtain ⟨raw', content', -, -, hrp', hc', hdc', -⟩ := signature_decoded_protected_bytes hd
  rw [hrp] at hrp'
  cases hrp'
  have hcc := C03.isBstrEncoding_content_unique hc hc'
  subst hcc
  rw [hdc] at hdc'
  cases hdc'
  obtain ⟨h1, h2, -⟩ := countersignature_verify_mismatch_no_call cs v parent ext c ha hne
  exact ⟨h1, h2⟩

/-- B3. the same for a DECODED stand-alone COSE_Signature handed to `Signature.Verify` with any
    body protected bytes / payload -/
theorem signature_verify_consults_wire_alg (b : Bytes) (sg : SigV) (v : Verifier)
    (bprot : Bytes) (payload ext : Option Bytes) (hd : Signature.unmarshal b = .ok sg)
    (hcall : (Signature.verify sg v bprot payload ext).2 ≠ []) :
    ∃ raw content rest pm bcontent pl, b = 0x83 :: (raw ++ rest) ∧ sg.h.rawP = some raw ∧
      IsBstrEncoding raw content ∧ decProtectedContent content = .ok pm ∧
      (algorithmOf pm = .found v.alg ∨
        (algorithmOf pm = .notFound ∧ (ext.getD []).length > 0)) ∧
      IsBstrEncoding bprot bcontent ∧ payload = some pl ∧
      (Signature.verify sg v bprot payload ext).2
        = [detEnc (sigStructure bcontent content (ext.getD []) pl)] := by
  obtain ⟨raw, content, rest, hb, hrp, hc, hdc, hmp⟩ := signature_decoded_protected_bytes hd
  have hgate := (verify_gate_iff _ _ _).mp
    (signature_verify_call_implies_gate sg v bprot payload ext hcall)
  obtain ⟨tbs, hcalls, ht, hsome⟩ := verifySig_call sg v bprot payload ext hcall
  obtain ⟨pl, hpl⟩ := C03.isSome_inv hsome
  obtain ⟨bc, raw', sc, hbc, -, hmp', hsc, -, rfl⟩ := C03.tbsSig_rfc_of_ok ht hpl
  rw [hmp] at hmp'
  cases hmp'
  have e1 := C03.isBstrEncoding_content_unique hc hsc
  subst e1
  exact ⟨raw, content, rest, sg.h.p, bc, pl, hb, hrp, hc, hdc, hgate, hbc, hpl, hcalls⟩

end C04

/-! ## A (countersignature values). clear-raw for COSE_Sign / COSE_Signature whose unprotected
    buckets carry decoded countersignatures: tools -/

namespace SignClearC
open CsigRT WireClosure SignWireClosure NestedBuckets NestedClosures ClearRaw CsigClosures SignClear

/-- `RawProtected = nil`, `RawUnprotected = nil` of one header layer AND, recursively, of every
    countersignature in its unprotected bucket (`CsigClosures.clearPairs`) -/
def clearHD (h : Hdrs) : Hdrs := { rawP := none, p := h.p, rawU := none, u := clearPairs h.u }

/-- a signer entry / stand-alone COSE_Signature with ALL retained raw bytes discarded -/
def clearRawSigDeep (s : SigV) : SigV := { h := clearHD s.h, sig := s.sig }

/-- a COSE_Sign with ALL retained raw header bytes discarded: body, every signer slot, and every
    countersignature inside any of their unprotected buckets, at every level -/
def clearRawSignDeep (m : SignMsg) : SignMsg :=
  { h := clearHD m.h, payload := m.payload, sigs := m.sigs.map clearRawSigDeep }

theorem clearHD_u (h : Hdrs) : (clearHD h).u = h.u.map clearEntry := clearPairs_eq _

/-- the header layer AS DECODED from the re-encoding -/
def canonHDC (h : Hdrs) : Hdrs :=
  { rawP := some (pItem h.p).bytes, p := canonP h.p, rawU := some (umapWire h.u).bytes,
    u := canonUC h.u }

def canonSDC (s : SigV) : SigV := { h := canonHDC s.h, sig := s.sig }

def sigItemC (s : SigV) : Wire := .arr .imm [pItem s.h.p, umapWire s.h.u, C09.shortItem s.sig]

def canonSignDC (m : SignMsg) : SignMsg :=
  { h := canonHDC m.h, payload := m.payload, sigs := m.sigs.map canonSDC }

/-- ONE DECODED HEADER LAYER whose unprotected bucket may hold decoded countersignatures (map item
    met at depth `d`): the form of `SignClear.layer_clear` -/
theorem layer_clearC {d : Nat} {p u : Wire} {h : Hdrs}
    (hp : decProtected p = .ok h.p) (hu : decUnprot u = .ok h.u) (hiv : ensureIV h.p h.u = true)
    (hpwf : p.wf = true) (huwf : u.wf = true) (hulim : u.inLimits false d = true)
    (hfp : NestedMap h.p) (hfu : DMap (d + 1) h.u) :
    marshalProtected (clearHD h) = .ok (pItem h.p).bytes ∧
    marshalUnprotected (clearHD h) = .ok (umapWire h.u).bytes ∧
    ensureIV (clearHD h).p (clearHD h).u = true ∧
    (pItem h.p).wf = true ∧ (umapWire h.u).wf = true ∧
    (umapWire h.u).inLimits false d = true ∧
    decProtected (pItem h.p) = .ok (canonP h.p) ∧ decUnprot (umapWire h.u) = .ok (canonUC h.u) ∧
    ensureIV (canonP h.p) (canonUC h.u) = true ∧ DMap (d + 1) (canonUC h.u) ∧
    (∀ e ∈ h.u, FlatLabel e.1) ∧
    marshalProtected (clearHD (canonHDC h)) = .ok (pItem h.p).bytes ∧
    marshalUnprotected (clearHD (canonHDC h)) = .ok (umapWire h.u).bytes ∧
    ensureIV (clearHD (canonHDC h)).p (clearHD (canonHDC h)).u = true := by
  obtain ⟨hwp, enc, rfl, -⟩ := C05.protected_is_bstr_of_map p _ hp
  have hpc : decProtectedContent enc = .ok h.p := hp
  have hvp := C13.decoded_reencodable enc _ hpc
  obtain ⟨content, hE1, hc0, hc1, hD, hE2⟩ :=
    protected_canonN hfp (protected_decoded_uintOK hpc) hvp (protected_decoded_length hpc)
  have hcc : content = pContent h.p := by
    cases hm : h.p with
    | nil => rw [hc0 hm]; rfl
    | cons e es => rw [hc1 (by rw [hm]; exact List.cons_ne_nil _ _), hm]; rfl
  subst hcc
  have hle : (pContent h.p).length ≤ enc.length := by
    by_cases hne : h.p = []
    · rw [hc0 hne]; simp
    · rw [hc1 hne]; exact protected_decoded_bytes_leN hpc hfp hne
  obtain ⟨hmap1, hmap2, hU1, hUwf, hUlim, -, hDu, hdm, hU2⟩ :=
    unprotected_canonC (d := d) hu huwf hulim hfu
  have hflu : ∀ e ∈ h.u, FlatLabel e.1 :=
    fun e he => (hmap1 (clearEntry e) (List.mem_map_of_mem he)).1
  have hiv' : ensureIV (canonP h.p) (canonUC h.u) = true := ensureIV_cdecoded hfp hflu hiv
  have hclen : (pContent h.p).length < 18446744073709551616 := by
    simp only [Wire.wf] at hpwf
    have := Reencode.fits_lt hpwf
    omega
  have hfp1 : NestedMap (canonP h.p) := nestedMapAt_decEntryN (NestedMapAt.sorted (d := 1) hfp)
  have hu2 : (clearHD (canonHDC h)).u = (canonUC h.u).map clearEntry := clearPairs_eq _
  refine ⟨marshalProtected_of_bucket rfl (nested_modelled hfp) hE1,
    marshalUnprotected_of_bucket rfl (by rw [clearHD_u]; exact hmap_modelled hmap1)
      (by rw [clearHD_u]; exact hU1),
    by rw [clearHD_u, ensureIV_clear]; exact hiv,
    Reencode.shortest_fits hclen, hUwf, hUlim false, hD, hDu, hiv', hdm, hflu,
    marshalProtected_of_bucket rfl (nested_modelled hfp1) hE2,
    marshalUnprotected_of_bucket rfl (by rw [hu2]; exact hmap_modelled hmap2)
      (by rw [hu2]; exact hU2),
    by rw [hu2, ensureIV_clear]; exact hiv'⟩

theorem sigItemC_bytes (s : SigV) (hz : blen s.sig ≠ 0) :
    (sigItemC s).bytes
      = 0x83 :: ((pItem s.h.p).bytes ++ ((umapWire s.h.u).bytes ++ encBstr (s.sig.getD []))) := by
  obtain ⟨c, -, hs⟩ := C09.sig_some hz
  rw [sigItemC, Accept.arr3_bytes, hs]

/-- ONE DECODED SIGNER ENTRY met at depth `d`, countersignatures allowed in its unprotected bucket:
    the form of `SignClear.sigElem_clear` -/
theorem sigElem_clearC {d : Nat} {x : Wire} {s : SigV} (hel : C05.SigElem x s)
    (hwf : x.wf = true) (hlim : x.inLimits false d = true) (hfp : NestedMap s.h.p)
    (hfu : DMap (d + 2) s.h.u) :
    Signature.marshal (clearRawSigDeep s) = .ok (sigItemC s).bytes ∧ (sigItemC s).wf = true ∧
      (sigItemC s).inLimits false d = true ∧ C05.SigElem (sigItemC s) (canonSDC s) ∧
      Signature.marshal (clearRawSigDeep (canonSDC s)) = .ok (sigItemC s).bytes := by
  obtain ⟨p, u, hw, c, rfl, hc, hs, hp, hu, hiv, -, -⟩ := C09.sigElem_shape hel
  have hz : blen s.sig ≠ 0 := by rw [hs]; exact C09.blen_some_ne hc
  simp only [Wire.wf, Wire.wfList, Bool.and_eq_true] at hwf
  obtain ⟨-, hpwf, huwf, hsgwf, -⟩ := hwf
  simp only [Wire.inLimits, Wire.inLimitsList, Bool.and_eq_true, decide_eq_true_eq] at hlim
  obtain ⟨⟨hd1, -⟩, -, hulim, -⟩ := hlim
  obtain ⟨hP1, hU1, hiv1, hPwf, hUwf, hUlim, hD, hDu, hiv', -, -, hP2, hU2, hiv2⟩ :=
    layer_clearC (d := d + 1) hp hu hiv hpwf huwf hulim hfp hfu
  have hsgfit : (HW.shortest c.length).fits c.length = true :=
    Reencode.shortest_fits (Reencode.fits_lt hsgwf)
  have hwfT : (sigItemC s).wf = true := by
    have h3 : HW.fits .imm 3 = true := by decide
    simp [sigItemC, hs, C09.shortItem, Wire.wf, Wire.wfList, h3, hPwf, hUwf, hsgfit]
  have hlimT : (sigItemC s).inLimits false d = true := by
    simp [sigItemC, Wire.inLimits, Wire.inLimitsList, hd1, maxElems, hUlim, pItem,
      C09.shortItem_inLimits]
  refine ⟨?_, hwfT, hlimT, ?_, ?_⟩
  · rw [sigItemC_bytes s hz]
    exact signature_marshal_of_buckets (s := clearRawSigDeep s) hz hiv1 hP1 hU1
  · exact ⟨_, _, _, rfl, hD, hDu, hiv', rfl, rfl, C09.shortItem_dec _, hz⟩
  · rw [sigItemC_bytes s hz]
    exact signature_marshal_of_buckets (s := clearRawSigDeep (canonSDC s)) hz hiv2 hP2 hU2

/-- ALL SIGNER ENTRIES of a decoded COSE_Sign (each met at depth 2) -/
theorem sigList_clearC : ∀ (xs : List Wire) (l : List SigV), decSigList xs = .ok l →
    Wire.wfList xs = true → Wire.inLimitsList false 2 xs = true →
    (∀ s ∈ l, NestedMap s.h.p ∧ DMap 4 s.h.u) →
    marshalSigs (l.map clearRawSigDeep) = .ok (Wire.bytesList (l.map sigItemC)) ∧
      Wire.wfList (l.map sigItemC) = true ∧ Wire.inLimitsList false 2 (l.map sigItemC) = true ∧
      decSigList (l.map sigItemC) = .ok (l.map canonSDC) ∧
      marshalSigs ((l.map canonSDC).map clearRawSigDeep) = .ok (Wire.bytesList (l.map sigItemC))
  | [], l, h, _, _, _ => by
    rw [C05.decSigList_nil] at h
    cases h
    exact ⟨rfl, rfl, rfl, C05.decSigList_nil, rfl⟩
  | x :: xs, l, h, hwf, hlim, hsl => by
    obtain ⟨s, r, hel, hr, rfl⟩ := C05.decSigList_cons_elem h
    simp only [Wire.wfList, Bool.and_eq_true] at hwf
    simp only [Wire.inLimitsList, Bool.and_eq_true] at hlim
    obtain ⟨hfp, hfu⟩ := hsl s (List.mem_cons_self ..)
    obtain ⟨a1, a2, a3, a4, a5⟩ := sigElem_clearC (d := 2) hel hwf.1 hlim.1 hfp hfu
    obtain ⟨b1, b2, b3, b4, b5⟩ := sigList_clearC xs r hr hwf.2 hlim.2
      (fun t ht => hsl t (List.mem_cons_of_mem _ ht))
    refine ⟨?_, ?_, ?_, ?_, ?_⟩
    · simp [marshalSigs, a1, b1, Wire.bytesList, bind, Out.bind]
    · simp [Wire.wfList, a2, b2]
    · simp [Wire.inLimitsList, a3, b3]
    · exact C09.decSigList_cons_of a4 b4
    · simp only [List.map_cons, marshalSigs, a5, b5, Wire.bytesList, bind, Out.bind]

/-- the bytes one deep clear-raw cycle of a decoded COSE_Sign emits -/
def clearedBytesC (m : SignMsg) : Bytes :=
  0xd8 :: 0x62 ::
    (signTree (pItem m.h.p) (umapWire m.h.u) m.payload (m.sigs.map sigItemC)).bytes

/-- CORE (the form of `SignClear.sign_clear_raw_core_nested` with countersignature values): a
    decoded COSE_Sign whose header values are in the data model, ALL retained raw bytes discarded
    (body, slots, and every countersignature inside, at every level), is emitted as
    `clearedBytesC m`, which decodes to `canonSignDC m`; and THAT message, all raw bytes discarded
    again, is emitted as the same bytes -/
theorem sign_clear_raw_core_csig (b : Bytes) (m : SignMsg) (hd : Sign.unmarshal b = .ok m)
    (hfp : NestedMap m.h.p) (hfu : DMap 2 m.h.u)
    (hslots : ∀ s ∈ m.sigs, NestedMap s.h.p ∧ DMap 4 s.h.u) :
    Sign.marshal (clearRawSignDeep m) = .ok (clearedBytesC m) ∧
      Sign.unmarshal (clearedBytesC m) = .ok (canonSignDC m) ∧
      Sign.marshal (clearRawSignDeep (canonSignDC m)) = .ok (clearedBytesC m) := by
  obtain ⟨hws, p, u, pl, sgs, -, -, hwf, -, hlim, hpl, hh, hne, hs⟩ :=
    C05.sign_accept_envelope_full hd
  obtain ⟨hp, hu, hiv, -, -⟩ := C09.decHeaders_ok hh
  obtain ⟨hlen, -⟩ := C05.decSigList_ok sgs m.sigs hs
  simp only [Wire.wf, Wire.wfList, Bool.and_eq_true] at hwf
  obtain ⟨-, hpwf, huwf, hplwf, ⟨hsfit, hswf⟩, -⟩ := hwf
  simp only [Wire.inLimits, Wire.inLimitsList, Bool.and_eq_true, decide_eq_true_eq] at hlim
  obtain ⟨-, -, hulim, -, ⟨⟨-, hslen⟩, hslim⟩, -⟩ := hlim
  obtain ⟨hP1, hU1, hiv1, hPwf, hUwf, hUlim, hD, hDu, hiv', -, -, hP2, hU2, hiv2⟩ :=
    layer_clearC (d := 1) hp hu hiv hpwf huwf hulim hfp hfu
  obtain ⟨b1, b2, b3, b4, b5⟩ := sigList_clearC sgs m.sigs hs hswf hslim hslots
  have hmne : m.sigs ≠ [] := by
    intro hc
    rw [hc] at hlen
    exact hne (List.eq_nil_of_length_eq_zero hlen.symm)
  have hxn : m.sigs.map sigItemC ≠ [] := fun hc => hmne (List.map_eq_nil_iff.mp hc)
  have hwfT : (signTree (pItem m.h.p) (umapWire m.h.u) m.payload (m.sigs.map sigItemC)).wf
      = true := by
    have h4 : HW.fits .imm 4 = true := by decide
    have hnf : (HW.shortest m.sigs.length).fits m.sigs.length = true :=
      Reencode.shortest_fits (by rw [hlen]; exact Reencode.fits_lt hsfit)
    simp [signTree, Wire.wf, Wire.wfList, h4, hPwf, hUwf, C09.shortItem_wf hplwf hpl, hnf, b2]
  have hlimT : (signTree (pItem m.h.p) (umapWire m.h.u) m.payload
      (m.sigs.map sigItemC)).inLimits false 0 = true := by
    have hxl : (m.sigs.map sigItemC).length ≤ maxElems := by
      rw [List.length_map, hlen]; exact hslen
    simp [signTree, Wire.inLimits, Wire.inLimitsList, maxNested, hUlim, C09.shortItem_inLimits,
      b3, pItem]
    constructor
    · unfold maxElems; omega
    · simpa using hxl
  have hpt := parseTop_complete hwfT hlimT
  have hbytes : ∀ (l' : List SigV), l'.length = m.sigs.length →
      0xd8 :: 0x62 :: 0x84 :: ((pItem m.h.p).bytes ++ ((umapWire m.h.u).bytes ++
        (optBytesEnc m.payload ++ (encHead 4 l'.length ++ Wire.bytesList (m.sigs.map sigItemC)))))
      = clearedBytesC m := by
    intro l' hl'
    rw [clearedBytesC, signTree_bytes, List.length_map, hl']
  rw [signTree_bytes] at hpt
  refine ⟨?_, ?_, ?_⟩
  · rw [← hbytes (m.sigs.map clearRawSigDeep) (List.length_map _)]
    exact sign_marshal_of_buckets (m := clearRawSignDeep m)
      (fun hc => hmne (List.map_eq_nil_iff.mp hc)) hiv1 hP1 hU1 b1
  · rw [clearedBytesC, signTree_bytes]
    exact C09.sign_unmarshal_of hpt (C09.shortItem_dec m.payload) hxn b4
      (C09.decHeaders_of hD hDu hiv')
  · rw [← hbytes ((m.sigs.map canonSDC).map clearRawSigDeep)
      (by rw [List.length_map, List.length_map])]
    exact sign_marshal_of_buckets (m := clearRawSignDeep (canonSignDC m))
      (fun hc => hmne (List.map_eq_nil_iff.mp (List.map_eq_nil_iff.mp hc))) hiv2 hP2 hU2 b5

/-- what ONE deep clear-raw cycle makes of a decoded header layer `h` (the form of
    `SignClear.LayerCanon`; unprotected values in the decoder's normal form `cnorm`:
    countersignatures decoded again from their canonical bytes) -/
def LayerCanonC (d : Nat) (h h' : Hdrs) : Prop :=
  h'.p = (sortEntries h.p).map decEntryN ∧ h'.u = (sortEntries h.u).map cnormEntry ∧
  h'.p.Perm (h.p.map decEntryN) ∧ h'.u.Perm (h.u.map cnormEntry) ∧
  (∀ e ∈ h.p, ∀ l, normalizeLabel l = normalizeLabel e.1 →
    lookupLabel h.p l = some e.2 ∧ lookupLabel h'.p l = some (decEntryN e).2) ∧
  (∀ e ∈ h.u, ∀ l, normalizeLabel l = normalizeLabel e.1 →
    lookupLabel h.u l = some e.2 ∧ lookupLabel h'.u l = some (cnorm e.2)) ∧
  algorithmOf h'.p = algorithmOf h.p ∧ NestedMap h'.p ∧ DMap d h'.u

theorem layerCanonC_of_decoded {d : Nat} {p u : Wire} {h : Hdrs}
    (hp : decProtected p = .ok h.p) (hu : decUnprot u = .ok h.u) (hiv : ensureIV h.p h.u = true)
    (hpwf : p.wf = true) (huwf : u.wf = true) (hulim : u.inLimits false d = true)
    (hfp : NestedMap h.p) (hfu : DMap (d + 1) h.u) : LayerCanonC (d + 1) h (canonHDC h) := by
  obtain ⟨-, -, -, -, -, -, -, -, -, hdm, hflu, -⟩ :=
    layer_clearC hp hu hiv hpwf huwf hulim hfp hfu
  obtain ⟨hwp, enc, rfl, -⟩ := C05.protected_is_bstr_of_map p _ hp
  have hpc : decProtectedContent enc = .ok h.p := hp
  have hvp := C13.decoded_reencodable enc _ hpc
  have hvu := C13.decoded_unprot_reencodable u _ hu
  refine ⟨rfl, rfl, (sortEntries_perm _).map decEntryN, (sortEntries_perm _).map cnormEntry,
    ?_, ?_, algorithmOf_canonP hpc hfp,
    nestedMapAt_decEntryN (NestedMapAt.sorted (d := 1) hfp), hdm⟩
  · intro e he l hl
    exact C08.protected_lookup_roundtrip_nested h.p hfp hvp e he l hl
  · intro e he l hl
    have hok := C13.validate_labels h.u false hvu
    have hn := normalizeLabel_flat (hflu e he)
    refine ⟨lookupLabel_of_mem hok he (hl.trans hn) hn, ?_⟩
    have hes : e ∈ sortEntries h.u := (sortEntries_perm h.u).mem_iff.mpr he
    have hfls : ∀ x ∈ sortEntries h.u, FlatLabel x.1 :=
      fun x hx => hflu x ((sortEntries_perm h.u).mem_iff.mp hx)
    exact lookupLabel_of_mem (labelsOK_cnormEntry hfls (labelsOK_sorted hok))
      (List.mem_map_of_mem (f := cnormEntry) hes) (hl.trans hn)
      (by simp only [cnormEntry]; rw [normalizeLabel_normVal (hflu e he), hn])

end SignClearC

namespace C09
open CsigRT WireClosure SignWireClosure NestedBuckets NestedClosures ClearRaw CsigClosures
open SignClear SignClearC

/-- S1-C. CLEAR-RAW, DECODABLE, COSE_Sign, COUNTERSIGNATURE VALUES (`sign_clear_raw_decodable_nested`
    for a decoded COSE_Sign whose unprotected buckets — of the body and of every signer slot —
    may hold, under labels 7 / 11, decoded countersignature values, each retaining its own raw
    buckets, to any depth).  Data model: `NestedMap` for every protected map, `DMap 2` for the
    body's unprotected map, `DMap 4` for a slot's.  After the application discards the retained
    raw bytes AT EVERY LEVEL (`clearRawSignDeep`) the message is encoded, the bytes are decoded
    again: same payload, as many slots, slot by slot the same signature, and in the body and in
    every slot the header parameters in canonical form (`LayerCanonC`: every countersignature
    decoded again from its canonical bytes). -/
theorem sign_clear_raw_decodable_csig (b : Bytes) (m : SignMsg) (hd : Sign.unmarshal b = .ok m)
    (hfp : NestedMap m.h.p) (hfu : DMap 2 m.h.u)
    (hslots : ∀ s ∈ m.sigs, NestedMap s.h.p ∧ DMap 4 s.h.u) :
    ∃ b', Sign.marshal (clearRawSignDeep m) = .ok b' ∧
      ∃ m', Sign.unmarshal b' = .ok m' ∧ m'.payload = m.payload ∧ LayerCanonC 2 m.h m'.h ∧
        m'.sigs.length = m.sigs.length ∧
        ∀ i (h1 : i < m.sigs.length) (h2 : i < m'.sigs.length),
          m'.sigs[i].sig = m.sigs[i].sig ∧ LayerCanonC 4 m.sigs[i].h m'.sigs[i].h := by
  obtain ⟨h1, h2, -⟩ := sign_clear_raw_core_csig b m hd hfp hfu hslots
  obtain ⟨hws, p, u, pl, sgs, -, -, hwf, -, hlim, -, hh, -, hs⟩ :=
    C05.sign_accept_envelope_full hd
  obtain ⟨hp, hu, hiv, -, -⟩ := C09.decHeaders_ok hh
  obtain ⟨hlen, hidx⟩ := C05.decSigList_ok sgs m.sigs hs
  simp only [Wire.wf, Wire.wfList, Bool.and_eq_true] at hwf
  obtain ⟨-, hpwf, huwf, -, ⟨-, hswf⟩, -⟩ := hwf
  simp only [Wire.inLimits, Wire.inLimitsList, Bool.and_eq_true, decide_eq_true_eq] at hlim
  obtain ⟨-, -, hulim, -, ⟨-, hslim⟩, -⟩ := hlim
  refine ⟨_, h1, _, h2, rfl, layerCanonC_of_decoded (d := 1) hp hu hiv hpwf huwf hulim hfp hfu,
    by simp [canonSignDC], ?_⟩
  intro i hi hi'
  have hi2 : i < sgs.length := hlen ▸ hi
  obtain ⟨pi, ui, sgi, hx, hpi, hui, hivi, -⟩ := hidx i hi2 hi
  obtain ⟨hfpi, hfui⟩ := hslots _ (List.getElem_mem hi)
  have hxwf := (wfList_iff sgs).mp hswf _ (List.getElem_mem hi2)
  have hxlim := (inLimitsList_iff false 2 sgs).mp hslim _ (List.getElem_mem hi2)
  rw [hx] at hxwf hxlim
  simp only [Wire.wf, Wire.wfList, Bool.and_eq_true] at hxwf
  simp only [Wire.inLimits, Wire.inLimitsList, Bool.and_eq_true] at hxlim
  simp only [canonSignDC, List.getElem_map]
  exact ⟨rfl, layerCanonC_of_decoded (d := 3) hpi hui hivi hxwf.2.1 hxwf.2.2.1 hxlim.2.2.1
    hfpi hfui⟩

/-- S2-C. CLEAR-RAW, FIXPOINT, COSE_Sign, COUNTERSIGNATURE VALUES: with `b'`, `m'` as in S1-C,
    discarding all raw bytes of `m'` — body, slots, and those the decoder retained inside every
    countersignature — and encoding again gives `b'` again, and decoding it gives `m'` again:
    ONE cycle reaches the fixpoint at every level of nesting. -/
theorem sign_clear_raw_fixpoint_csig (b : Bytes) (m : SignMsg) (hd : Sign.unmarshal b = .ok m)
    (hfp : NestedMap m.h.p) (hfu : DMap 2 m.h.u)
    (hslots : ∀ s ∈ m.sigs, NestedMap s.h.p ∧ DMap 4 s.h.u)
    (b' : Bytes) (m' : SignMsg) (he : Sign.marshal (clearRawSignDeep m) = .ok b')
    (hd' : Sign.unmarshal b' = .ok m') :
    ∃ b'', Sign.marshal (clearRawSignDeep m') = .ok b'' ∧ b'' = b' ∧
      Sign.unmarshal b'' = .ok m' := by
  obtain ⟨h1, h2, h3⟩ := sign_clear_raw_core_csig b m hd hfp hfu hslots
  have hb : clearedBytesC m = b' := Out.ok.inj (h1.symm.trans he)
  subst hb
  rw [h2] at hd'
  cases hd'
  exact ⟨_, h3, rfl, h2⟩

/-- one decode / discard-ALL-raw / encode cycle of a COSE_Sign -/
def signClearCycleDeep (b : Bytes) : Out Bytes := do
  let m ← Sign.unmarshal b
  Sign.marshal (clearRawSignDeep m)

/-- S2'-C. the deep cycle is idempotent on inputs whose decoded header values are in the data
    model -/
theorem signClearCycleDeep_idempotent_csig (b b1 : Bytes)
    (hdm : ∀ m, Sign.unmarshal b = .ok m → NestedMap m.h.p ∧ DMap 2 m.h.u ∧
      ∀ s ∈ m.sigs, NestedMap s.h.p ∧ DMap 4 s.h.u)
    (h : signClearCycleDeep b = .ok b1) : signClearCycleDeep b1 = .ok b1 := by
  unfold signClearCycleDeep at h ⊢
  cases hd : Sign.unmarshal b with
  | ok m =>
    simp only [hd, bind, Out.bind] at h
    obtain ⟨hfp, hfu, hslots⟩ := hdm m hd
    obtain ⟨h1, h2, h3⟩ := sign_clear_raw_core_csig b m hd hfp hfu hslots
    have hb : clearedBytesC m = b1 := Out.ok.inj (h1.symm.trans h)
    subst hb
    simp only [h2, bind, Out.bind]
    exact h3
  | err e => simp [hd, bind, Out.bind] at h
  | panic => simp [hd, bind, Out.bind] at h
  | unmodelled => simp [hd, bind, Out.bind] at h

/-- S3-C. DEEP CLEAR-RAW for a STAND-ALONE decoded COSE_Signature / COSE_Countersignature whose own
    unprotected bucket may hold decoded countersignatures (`DMap 2`), decodable AND fixpoint -/
theorem signature_clear_raw_fixpoint_csig (b : Bytes) (s : SigV)
    (hd : Signature.unmarshal b = .ok s) (hfp : NestedMap s.h.p) (hfu : DMap 2 s.h.u) :
    ∃ b', Signature.marshal (clearRawSigDeep s) = .ok b' ∧
      ∃ s', Signature.unmarshal b' = .ok s' ∧ s'.sig = s.sig ∧ LayerCanonC 2 s.h s'.h ∧
        Signature.marshal (clearRawSigDeep s') = .ok b' := by
  obtain ⟨p, u, sg, -, -, hwf, hlim, -, hsg, hz, hp, hu, hiv, hrp, hru⟩ :=
    C05.signature_accept_envelope_full b s hd
  have hel : C05.SigElem (.arr .imm [p, u, sg]) s := ⟨p, u, sg, rfl, hp, hu, hiv, hrp, hru, hsg, hz⟩
  obtain ⟨a1, a2, a3, a4, a5⟩ := sigElem_clearC (d := 0) hel hwf hlim hfp hfu
  simp only [Wire.wf, Wire.wfList, Bool.and_eq_true] at hwf
  simp only [Wire.inLimits, Wire.inLimitsList, Bool.and_eq_true] at hlim
  exact ⟨_, a1, _, signature_unmarshal_of_sigElem a4 a2 a3, rfl,
    layerCanonC_of_decoded (d := 1) hp hu hiv hwf.2.1 hwf.2.2.1 hlim.2.2.1 hfp hfu, a5⟩

/-- the deep clearing agrees with the plain one when no unprotected bucket holds a
    countersignature value (so S1-C / S2-C contain S1-N / S2-N) -/
theorem clearRawSigDeep_of_nested {d : Nat} (s : SigV) (hfu : NestedMapAt d s.h.u) :
    clearRawSigDeep s = clearRawSig s := by
  have : clearPairs s.h.u = s.h.u := by
    rw [clearPairs_eq]
    exact map_id_of_fixed (fun e he => by
      simp only [clearEntry, clearV_other (isCs_rtVal (hfu e he).2)])
  simp only [clearRawSigDeep, clearRawSig, clearHD, clearH, this]

end C09

/-! ## C. non-vacuity -/

namespace SignClearExamples
open SignClear ClearRaw NestedBuckets NestedClosures ClearRawExamples CsigClearRawExamples

/-- the signer slot AS SENT: protected bucket `{1: -7}` under a NON-SHORTEST head
    (`58 03 a10126` instead of `43 a10126`), empty unprotected map, signature `h'07'` -/
def exSlotW : Wire := .arr .imm [.bstr .w1 [0xa1, 0x01, 0x26], .map .imm [], .bstr .imm [7]]

/-- `98([h'a20441310126', {}, h'010203', [[h'a10126' (long head), {}, h'07']]])`: the body
    protected bucket `{4: h'31', 1: -7}` has its keys OUT OF ORDER -/
def exSB : Bytes :=
  [0xd8, 0x62, 0x84, 0x46, 0xa2, 0x04, 0x41, 0x31, 0x01, 0x26, 0xa0, 0x43, 1, 2, 3,
   0x81, 0x83, 0x58, 0x03, 0xa1, 0x01, 0x26, 0xa0, 0x41, 7]

/-- the same message after one clear-raw cycle: body protected keys sorted (`a2 01 26 04 41 31`),
    slot protected bucket under the shortest head (`43 a10126`) -/
def exSB' : Bytes :=
  [0xd8, 0x62, 0x84, 0x46, 0xa2, 0x01, 0x26, 0x04, 0x41, 0x31, 0xa0, 0x43, 1, 2, 3,
   0x81, 0x83, 0x43, 0xa1, 0x01, 0x26, 0xa0, 0x41, 7]

/-- the slot as DECODED: `RawProtected` is the 5 bytes as sent -/
def exSlotD : SigV :=
  { h := { rawP := some (Wire.bstr .w1 [0xa1, 0x01, 0x26]).bytes, p := [(lbl 1, .alg (-7))],
           rawU := some (Wire.map .imm []).bytes, u := [] },
    sig := some [7] }

/-- the message as DECODED -/
def exSM : SignMsg :=
  { h := { rawP := some exPu.bytes, p := exPm, rawU := some (Wire.map .imm []).bytes, u := [] },
    payload := some [1, 2, 3], sigs := [exSlotD] }

def exSTree : Wire := .arr .imm [exPu, .map .imm [], .bstr .imm [1, 2, 3], .arr .imm [exSlotW]]

theorem exS_slot_raw : exSlotD.h.rawP = some [0x58, 0x03, 0xa1, 0x01, 0x26] := by decide

theorem exS_unmarshal : Sign.unmarshal exSB = .ok exSM := by
  have hwf : exSTree.wf = true := by
    simp [exSTree, exSlotW, exPu, Wire.wf, Wire.wfList, Wire.wfPairs, HW.fits]
  have hlim : exSTree.inLimits false 0 = true := by
    simp [exSTree, exSlotW, exPu, Wire.inLimits, Wire.inLimitsList, Wire.inLimitsPairs, maxNested,
      maxElems]
  have hpt := parseTop_complete hwf hlim
  have hb : exSTree.bytes = 0x84 :: [0x46, 0xa2, 0x04, 0x41, 0x31, 0x01, 0x26, 0xa0, 0x43, 1, 2, 3,
      0x81, 0x83, 0x58, 0x03, 0xa1, 0x01, 0x26, 0xa0, 0x41, 7] := by decide
  rw [hb] at hpt
  have hel : C05.SigElem exSlotW exSlotD :=
    ⟨_, _, _, rfl, exC_decP7 .w1, exC_decU0, by decide, rfl, rfl, rfl, by simp [exSlotD, blen]⟩
  exact C09.sign_unmarshal_of hpt (pay := some [1, 2, 3]) rfl (by simp)
    (C09.decSigList_cons_of hel C05.decSigList_nil)
    (C09.decHeaders_of ex_decPu exC_decU0 (by decide))

theorem exS_model : NestedMap exSM.h.p ∧ NestedMapAt 2 exSM.h.u ∧
    ∀ s ∈ exSM.sigs, NestedMap s.h.p ∧ NestedMapAt 4 s.h.u := by
  have h0 : ∀ d, NestedMapAt d [] := fun d e he => by cases he
  refine ⟨ex_flat.1.nested, h0 2, ?_⟩
  intro s hs
  simp only [exSM, List.mem_singleton] at hs
  subst hs
  exact ⟨C01.exP7_nested.1, h0 4⟩

/-- discarding the raw bytes (body and slot) and encoding gives `exSB'` -/
theorem exS_marshal_cleared : Sign.marshal (clearRawSign exSM) = .ok exSB' := by
  have hP : marshalProtected (clearH exSM.h) = .ok [0x46, 0xa2, 0x01, 0x26, 0x04, 0x41, 0x31] := by
    simp [clearH, exSM, marshalProtected, exPm, GoVal.modelledPairs, GoVal.modelled, encodeBucket,
      encCfg, validateHeaderParameters, validateLoop, normalizeLabel, wrap64, checkParam, lbl,
      canBstr, GoVal.keyEq, encodePairs, encodeAny, encInt, encHead, encBstr, HW.shortest,
      headBytes, ex_sort, concatPairs]
  have hU : marshalUnprotected (clearH exSM.h) = .ok [0xa0] := by
    simp [clearH, exSM, marshalUnprotected, GoVal.modelledPairs, encodeBucket]
  have hPs : marshalProtected (clearH exSlotD.h) = .ok [0x43, 0xa1, 0x01, 0x26] := by
    have hm : GoVal.modelledPairs [(lbl 1, .alg (-7))] = true := by
      simp [GoVal.modelledPairs, GoVal.modelled, lbl]
    simp [marshalProtected, clearH, exSlotD, hm, CsigExamples.exP7_enc]
  have hUs : marshalUnprotected (clearH exSlotD.h) = .ok [0xa0] := by
    simp [clearH, exSlotD, marshalUnprotected, GoVal.modelledPairs, encodeBucket]
  have hsig : Signature.marshal (clearRawSig exSlotD)
      = .ok [0x83, 0x43, 0xa1, 0x01, 0x26, 0xa0, 0x41, 7] := by
    rw [signature_marshal_of_buckets (s := clearRawSig exSlotD) (by simp [clearRawSig, exSlotD, blen])
      (by decide) hPs hUs]
    decide
  have hss : marshalSigs (clearRawSign exSM).sigs
      = .ok [0x83, 0x43, 0xa1, 0x01, 0x26, 0xa0, 0x41, 7] := by
    simp [clearRawSign, exSM, marshalSigs, hsig, bind, Out.bind]
  rw [sign_marshal_of_buckets (m := clearRawSign exSM) (by simp [clearRawSign, exSM]) (by decide)
    hP hU hss]
  decide

/-- NON-VACUITY of `C09.sign_clear_raw_decodable_nested` / `sign_clear_raw_fixpoint_nested`.
    `exSB` decodes to `exSM` (body protected map in wire order `{4, 1}`, slot `RawProtected` = the
    5 bytes `58 03 a1 01 26`); the data-model hypotheses hold; the theorems apply: discarding the
    raw bytes of the body and of the slot and encoding gives `exSB' ≠ exSB`, `exSB'` decodes to a
    message with the same payload, one slot with the same signature, `Algorithm()` ES256 in body
    and slot, and clearing and encoding THAT gives `exSB'` again. -/
example : ∃ m', Sign.unmarshal exSB = .ok exSM ∧
    exSM.h.p = [(lbl 4, .bytes [0x31]), (lbl 1, .alg (-7))] ∧
    exSM.sigs.map (fun s => s.h.rawP) = [some [0x58, 0x03, 0xa1, 0x01, 0x26]] ∧
    Sign.marshal (clearRawSign exSM) = .ok exSB' ∧ exSB' ≠ exSB ∧
    Sign.unmarshal exSB' = .ok m' ∧ m'.payload = some [1, 2, 3] ∧
    m'.h.p.Perm (exSM.h.p.map decEntryN) ∧ algorithmOf m'.h.p = .found (-7) ∧
    m'.sigs.map (fun s => (s.sig, algorithmOf s.h.p)) = [(some [7], .found (-7))] ∧
    Sign.marshal (clearRawSign m') = .ok exSB' ∧
    C09.signClearCycle exSB = .ok exSB' ∧ C09.signClearCycle exSB' = .ok exSB' := by
  obtain ⟨hfp, hfu, hslots⟩ := exS_model
  obtain ⟨b', h1, m', h2, hpay, hbody, hlen, hidx⟩ :=
    C09.sign_clear_raw_decodable_nested exSB _ exS_unmarshal hfp hfu hslots
  have hb : b' = exSB' := Out.ok.inj (h1.symm.trans exS_marshal_cleared)
  subst hb
  obtain ⟨b'', h3, rfl, -⟩ :=
    C09.sign_clear_raw_fixpoint_nested exSB _ exS_unmarshal hfp hfu hslots _ m' h1 h2
  have hcyc : C09.signClearCycle exSB = .ok exSB' := by
    simp [C09.signClearCycle, exS_unmarshal, h1, bind, Out.bind]
  obtain ⟨-, -, hpp, -, -, -, halg, -, -⟩ := hbody
  have hl1 : m'.sigs.length = 1 := hlen
  obtain ⟨hs0, -, -, -, -, -, -, halg0, -, -⟩ := hidx 0 (by decide) (by omega)
  refine ⟨m', exS_unmarshal, rfl, by decide, h1, by decide, h2, hpay, hpp, ?_, ?_, h3, hcyc,
    C09.signClearCycle_idempotent_nested exSB _ (fun m hm => ?_) hcyc⟩
  · rw [halg]; decide
  · match hm : m'.sigs, hl1 with
    | [s], _ =>
      simp only [hm, List.getElem_cons_zero] at hs0 halg0
      simp only [List.map_cons, List.map_nil, hs0, halg0]
      decide
  · rw [exS_unmarshal] at hm
    cases hm
    exact exS_model

/-- NON-VACUITY of `C09.signature_clear_raw_fixpoint_nested`: the slot of `exSB` taken as a
    stand-alone COSE_Signature `83 5803a10126 a0 4107` -/
example : ∃ s b' s', Signature.unmarshal exSlotW.bytes = .ok s ∧
    Signature.marshal (clearRawSig s) = .ok b' ∧ Signature.unmarshal b' = .ok s' ∧
    s'.sig = some [7] ∧ algorithmOf s'.h.p = .found (-7) ∧
    Signature.marshal (clearRawSig s') = .ok b' := by
  have hd : Signature.unmarshal exSlotW.bytes = .ok exSlotD :=
    C07.wf_signature_accepted_full (p := .bstr .w1 [0xa1, 0x01, 0x26]) (u := .map .imm [])
      (hw := .imm) (c := [7]) (by simp [Wire.wf, Wire.wfList, Wire.wfPairs, HW.fits])
      (by simp [Wire.inLimits, Wire.inLimitsList, Wire.inLimitsPairs, maxNested, maxElems])
      (exC_decP7 .w1) exC_decU0 (by decide) (by simp)
  obtain ⟨b', h1, s', h2, hs, ⟨-, -, -, -, -, -, halg, -, -⟩, h3⟩ :=
    C09.signature_clear_raw_fixpoint_nested _ _ hd C01.exP7_nested.1
      (show NestedMapAt 2 [] from fun e he => by cases he)
  refine ⟨_, b', s', hd, h1, h2, hs, ?_, h3⟩
  rw [halg]; decide

/-! ### A with countersignature values -/

section CsigExample
open CsigRT CsigExamples CsigClosures SignClearC

/-- a signer slot AS SENT whose unprotected bucket is `{11: [cs1, cs2]}` — two countersignatures,
    the first with a NON-CANONICAL protected bucket (`58 03 a10126`) -/
def exSlotCW : Wire := .arr .imm [exPuC, exUnC, .bstr .imm [7]]

/-- `98([h'a10126', {}, h'010203', [[h'a10126', {11: [cs1 (long head), cs2]}, h'07']]])` -/
def exSCB : Bytes :=
  [0xd8, 0x62, 0x84, 0x43, 0xa1, 0x01, 0x26, 0xa0, 0x43, 1, 2, 3, 0x81,
   0x83, 0x43, 0xa1, 0x01, 0x26,
   0xa1, 0x0b, 0x82,
   0x83, 0x58, 0x03, 0xa1, 0x01, 0x26, 0xa1, 0x04, 0x41, 0x32, 0x42, 0x01, 0x02,
   0x83, 0x43, 0xa1, 0x01, 0x27, 0xa0, 0x41, 0x03,
   0x41, 7]

/-- the same message after one DEEP clear-raw cycle: the protected bucket of the countersignature
    inside the slot re-encoded with the shortest head -/
def exSCB' : Bytes :=
  [0xd8, 0x62, 0x84, 0x43, 0xa1, 0x01, 0x26, 0xa0, 0x43, 1, 2, 3, 0x81,
   0x83, 0x43, 0xa1, 0x01, 0x26,
   0xa1, 0x0b, 0x82,
   0x83, 0x43, 0xa1, 0x01, 0x26, 0xa1, 0x04, 0x41, 0x32, 0x42, 0x01, 0x02,
   0x83, 0x43, 0xa1, 0x01, 0x27, 0xa0, 0x41, 0x03,
   0x41, 7]

def exSlotCD : SigV :=
  { h := { rawP := some exPuC.bytes, p := [(lbl 1, .alg (-7))], rawU := some exUnC.bytes,
           u := exUmC },
    sig := some [7] }

def exSCM : SignMsg :=
  { h := { rawP := some exPuC.bytes, p := [(lbl 1, .alg (-7))],
           rawU := some (Wire.map .imm []).bytes, u := [] },
    payload := some [1, 2, 3], sigs := [exSlotCD] }

def exSCTree : Wire := .arr .imm [exPuC, .map .imm [], .bstr .imm [1, 2, 3], .arr .imm [exSlotCW]]

theorem exSC_unmarshal : Sign.unmarshal exSCB = .ok exSCM := by
  have hwf : exSCTree.wf = true := by
    simp [exSCTree, exSlotCW, exPuC, exUnC, cs1W, cs2W, Wire.wf, Wire.wfList, Wire.wfPairs,
      HW.fits]
  have hlim : exSCTree.inLimits false 0 = true := by
    simp [exSCTree, exSlotCW, exPuC, exUnC, cs1W, cs2W, Wire.inLimits, Wire.inLimitsList,
      Wire.inLimitsPairs, maxNested, maxElems]
  have hpt := parseTop_complete hwf hlim
  have hb : exSCTree.bytes = 0x84 :: exSCB.drop 3 := by decide
  rw [hb] at hpt
  have hel : C05.SigElem exSlotCW exSlotCD :=
    ⟨_, _, _, rfl, exC_decP7 .imm, exC_decUn, by decide, rfl, rfl, rfl, by simp [exSlotCD, blen]⟩
  exact C09.sign_unmarshal_of hpt (pay := some [1, 2, 3]) rfl (by simp)
    (C09.decSigList_cons_of hel C05.decSigList_nil)
    (C09.decHeaders_of (exC_decP7 .imm) exC_decU0 (by decide))

/-- the data-model hypotheses: the decoded slot map `{11: [cs1D, cs2N]}` is a `DMap` at any depth -/
theorem exUmC_dmap (d : Nat) : DMap d exUmC := by
  have hp : ∀ a : Int, int64Range a → NestedMap [(lbl 1, .alg a)] := by
    intro a ha e he
    simp only [List.mem_singleton] at he
    subst he
    exact ⟨by simp [lbl, FlatLabel, int64Range], by simpa [RTVal, FlatVal] using ha⟩
  intro e he
  simp only [exUmC, List.mem_singleton] at he
  subst he
  refine .inr ?_
  simp only [DecOK, dElems_iff]
  intro x hx
  simp only [List.mem_cons, List.not_mem_nil, or_false] at hx
  rcases hx with rfl | rfl
  · simp only [cs1D, DecOK, dPairs_iff]
    refine ⟨by intro r hr; cases hr; simp, hp _ (by simp [int64Range]), ?_⟩
    intro e he
    simp only [List.mem_singleton] at he
    subst he
    exact .inl (by simp [RTVal, FlatVal])
  · simp only [cs2N, DecOK, dPairs_iff]
    exact ⟨by intro r hr; cases hr; simp, hp _ (by simp [int64Range]), by intro e he; cases he⟩

theorem exSC_model : NestedMap exSCM.h.p ∧ DMap 2 exSCM.h.u ∧
    ∀ s ∈ exSCM.sigs, NestedMap s.h.p ∧ DMap 4 s.h.u := by
  have h0 : DMap 2 [] := fun e he => by cases he
  refine ⟨C01.exP7_nested.1, h0, ?_⟩
  intro s hs
  simp only [exSCM, List.mem_singleton] at hs
  subst hs
  exact ⟨C01.exP7_nested.1, exUmC_dmap 4⟩

/-- discarding ALL raw bytes (body, slot, and inside both countersignatures of the slot) and
    encoding gives `exSCB'` -/
theorem exSC_marshal_cleared : Sign.marshal (clearRawSignDeep exSCM) = .ok exSCB' := by
  have hm : GoVal.modelledPairs [(lbl 1, .alg (-7))] = true := by
    simp [GoVal.modelledPairs, GoVal.modelled, lbl]
  have hP : marshalProtected (clearHD exSCM.h) = .ok [0x43, 0xa1, 0x01, 0x26] := by
    simp [marshalProtected, clearHD, exSCM, hm, exP7_enc]
  have hU : marshalUnprotected (clearHD exSCM.h) = .ok [0xa0] := by
    simp [clearHD, exSCM, clearPairs, marshalUnprotected, GoVal.modelledPairs, encodeBucket]
  have hPs : marshalProtected (clearHD exSlotCD.h) = .ok [0x43, 0xa1, 0x01, 0x26] := by
    simp [marshalProtected, clearHD, exSlotCD, hm, exP7_enc]
  have hu : (clearHD exSlotCD.h).u = exU3 := exC_clear
  have hUs : marshalUnprotected (clearHD exSlotCD.h)
      = .ok ([0xa1, 0x0b, 0x82] ++ cs1Bytes ++ cs2Bytes) := by
    have hm3 : GoVal.modelledPairs exU3 = true := by
      simp [exU3, cs1, cs2, GoVal.modelledPairs, GoVal.modelled, GoVal.modelledList, lbl]
    unfold marshalUnprotected
    rw [hu]
    simp [hm3, clearHD, exU3_enc]
  have hivs : ensureIV (clearHD exSlotCD.h).p (clearHD exSlotCD.h).u = true := by
    rw [hu]
    simp [clearHD, exSlotCD, exU3, ensureIV, hasLabel, lookupLabel, GoMap.lookup, GoVal.keyEq,
      lbl, normalizeLabel, wrap64]
  have hsig := signature_marshal_of_buckets (s := clearRawSigDeep exSlotCD)
    (by simp [clearRawSigDeep, exSlotCD, blen]) hivs hPs hUs
  have hss : marshalSigs (clearRawSignDeep exSCM).sigs
      = .ok (0x83 :: ([0x43, 0xa1, 0x01, 0x26] ++ (([0xa1, 0x0b, 0x82] ++ cs1Bytes ++ cs2Bytes)
          ++ encBstr [7]))) := by
    have hsg : (clearRawSigDeep exSlotCD).sig.getD [] = [7] := rfl
    rw [hsg] at hsig
    simp [clearRawSignDeep, exSCM, marshalSigs, hsig, bind, Out.bind]
  rw [sign_marshal_of_buckets (m := clearRawSignDeep exSCM) (by simp [clearRawSignDeep, exSCM])
    (by decide) hP hU hss]
  decide

/-- NON-VACUITY of `C09.sign_clear_raw_decodable_csig` / `sign_clear_raw_fixpoint_csig`.  `exSCB`
    decodes to `exSCM`, whose signer slot carries `{11: [cs1D, cs2N]}` — two decoded
    countersignatures, each retaining its own raw buckets, the first with a non-canonical
    protected bucket; the data-model hypotheses hold; clearing the raw bytes AT EVERY LEVEL and
    encoding gives `exSCB' ≠ exSCB`; `exSCB'` decodes to a message whose slot carries
    `{11: [cs1N, cs2N]}` (decoded normal forms), and clearing and encoding THAT gives `exSCB'`
    again. -/
example : ∃ m', Sign.unmarshal exSCB = .ok exSCM ∧
    exSCM.sigs.map (fun s => s.h.u) = [[(lbl 11, .csigs [cs1D, cs2N])]] ∧
    Sign.marshal (clearRawSignDeep exSCM) = .ok exSCB' ∧ exSCB' ≠ exSCB ∧
    Sign.unmarshal exSCB' = .ok m' ∧ m'.payload = some [1, 2, 3] ∧
    m'.sigs.map (fun s => (s.sig, s.h.u)) = [(some [7], [(lbl 11, .csigs [cs1N, cs2N])])] ∧
    Sign.marshal (clearRawSignDeep m') = .ok exSCB' := by
  obtain ⟨hfp, hfu, hslots⟩ := exSC_model
  obtain ⟨b', h1, m', h2, hpay, -, hlen, hidx⟩ :=
    C09.sign_clear_raw_decodable_csig exSCB _ exSC_unmarshal hfp hfu hslots
  have hb : b' = exSCB' := Out.ok.inj (h1.symm.trans exSC_marshal_cleared)
  subst hb
  obtain ⟨b'', h3, rfl, -⟩ :=
    C09.sign_clear_raw_fixpoint_csig exSCB _ exSC_unmarshal hfp hfu hslots _ m' h1 h2
  have hl1 : m'.sigs.length = 1 := hlen
  obtain ⟨hs0, -, hu0, -⟩ := hidx 0 (by decide) (by omega)
  refine ⟨m', exSC_unmarshal, rfl, h1, by decide, h2, hpay, ?_, h3⟩
  match hm : m'.sigs, hl1 with
  | [s], _ =>
    simp only [hm, List.getElem_cons_zero] at hs0 hu0
    have hu1 : s.h.u = [(lbl 11, .csigs [cs1N, cs2N])] := hu0.trans exC_norm
    simp only [List.map_cons, List.map_nil, hs0, hu1]
    rfl

end CsigExample

/-! ### B -/

/-- the ES256 verifier `exV7` IS invoked for slot 0 of the decoded `exSM` (one call) -/
theorem exS_verify_calls : (Sign.verify exSM none [C01.exV7]).2.length = 1 := by
  have hmpB : marshalProtected exSM.h = .ok exPu.bytes :=
    Verifies.marshalProtected_raw rfl (C01.decProtected_modelled ex_decPu)
  have hmpS : marshalProtected exSlotD.h = .ok (Wire.bstr .w1 [0xa1, 0x01, 0x26]).bytes :=
    Verifies.marshalProtected_raw rfl (C01.decProtected_modelled (exC_decP7 .w1))
  have ht := C02.tbsSig_eq_rfc exSlotD exPu.bytes (some [1, 2, 3]) none
    [0xa2, 0x04, 0x41, 0x31, 0x01, 0x26] _ [0xa1, 0x01, 0x26] [1, 2, 3]
    ⟨.imm, by decide, by decide⟩ (by decide) hmpS ⟨.w1, by decide, by decide⟩ (by decide) rfl
  have hg : ensureVerificationAlgorithm exSlotD.h.p C01.exV7.alg none = .ok () := by decide
  have hbo : bodyProtOK exPu.bytes = true := by decide
  have hsv : Signature.verify exSlotD C01.exV7 exPu.bytes (some [1, 2, 3]) none
      = (.ok (), [detEnc (sigStructure [0xa2, 0x04, 0x41, 0x31, 0x01, 0x26] [0xa1, 0x01, 0x26] []
          [1, 2, 3])]) := by
    have hz : blen exSlotD.sig ≠ 0 := by simp [exSlotD, blen]
    have hsg : exSlotD.sig.getD [] = [7] := rfl
    have hg' : ensureVerificationAlgorithm exSlotD.h.p (-7) none = .ok () := hg
    simp [Signature.verify, hz, hbo, hg', ht, hsg, C01.exV7]
  have hp : exSM.payload = some [1, 2, 3] := rfl
  have hsl : exSM.sigs = [exSlotD] := rfl
  simp [Sign.verify, hp, hsl, hmpB, verifyLoop, hsv]

/-- NON-VACUITY of `C04.sign_verify_consults_wire_alg`: `exSM` is decoded from `exSB`, verifier 0
    is invoked, and the alg encoded in slot 0's received protected bytes `58 03 a1 01 26` is
    ES256, the verifier's -/
example : ∃ content pm, IsBstrEncoding [0x58, 0x03, 0xa1, 0x01, 0x26] content ∧
    decProtectedContent content = .ok pm ∧ algorithmOf pm = .found C01.exV7.alg := by
  obtain ⟨h1, h2, raw, content, -, -, pm, -, hrp, hc, hdc, hg, -⟩ :=
    C04.sign_verify_consults_wire_alg exSB exSM none [C01.exV7] exS_unmarshal 0
      (by rw [exS_verify_calls]; decide)
  have hrw : raw = [0x58, 0x03, 0xa1, 0x01, 0x26] := by
    have := hrp.symm.trans exS_slot_raw
    exact Option.some.inj this
  subst hrw
  refine ⟨content, pm, hc, hdc, ?_⟩
  rcases hg with h | ⟨-, hx⟩
  · exact h
  · simp at hx

/-- NON-VACUITY of `C04.sign_verify_other_wire_alg_no_call`: an ES384 verifier (alg −35) is never
    invoked for the decoded `exSM`, whose slot's received protected bytes name ES256 -/
example : (Sign.verify exSM none [{ alg := -35, verify := fun _ _ => .ok () }]).2 = [] := by
  have h := (C04.sign_verify_other_wire_alg_no_call exSB exSM none
    [{ alg := -35, verify := fun _ _ => .ok () }] exS_unmarshal 0 (by decide) (by decide)
    [0x58, 0x03, 0xa1, 0x01, 0x26] [0xa1, 0x01, 0x26] [(lbl 1, .alg (-7))] (-7) exS_slot_raw
    ⟨.w1, by decide, by decide⟩ (exC_decP7 .w1) (by decide) (by decide)).1
  exact List.eq_nil_of_length_eq_zero (by omega)

/-- NON-VACUITY of `C04.countersignature_verify_consults_wire_alg`: the slot of `exSB` taken as a
    stand-alone countersignature on the signed COSE_Sign1 `exPar`, verified by `exV7` -/
example : ∃ raw content pm tbs, exSlotD.h.rawP = some raw ∧ IsBstrEncoding raw content ∧
    decProtectedContent content = .ok pm ∧ algorithmOf pm = .found (-7) ∧
    (Countersignature.verify exSlotD C01.exV7 (.sign1 C01.exPar) none).2 = [tbs] := by
  have hd : Signature.unmarshal exSlotW.bytes = .ok exSlotD :=
    C07.wf_signature_accepted_full (p := .bstr .w1 [0xa1, 0x01, 0x26]) (u := .map .imm [])
      (hw := .imm) (c := [7]) (by simp [Wire.wf, Wire.wfList, Wire.wfPairs, HW.fits])
      (by simp [Wire.inLimits, Wire.inLimitsList, Wire.inLimitsPairs, maxNested, maxElems])
      (exC_decP7 .w1) exC_decU0 (by decide) (by simp)
  have hok : (Countersignature.verify exSlotD C01.exV7 (.sign1 C01.exPar) none).2 ≠ [] := by
    have hmpS : marshalProtected exSlotD.h = .ok (Wire.bstr .w1 [0xa1, 0x01, 0x26]).bytes :=
      Verifies.marshalProtected_raw rfl (C01.decProtected_modelled (exC_decP7 .w1))
    have hg : ensureVerificationAlgorithm exSlotD.h.p C01.exV7.alg none = .ok () := by decide
    have hz : blen exSlotD.sig ≠ 0 := by simp [exSlotD, blen]
    have hd1 : detBstr (Wire.bstr .w1 [0xa1, 0x01, 0x26]).bytes
        = .ok (detEnc (.bstr [0xa1, 0x01, 0x26])) :=
      C02.detBstr_spec _ _ ⟨.w1, by decide, by decide⟩ (by decide)
    have hd2 : detBstr [0x43, 0xa1, 0x01, 0x26] = .ok (detEnc (.bstr [0xa1, 0x01, 0x26])) :=
      C02.detBstr_spec _ _ ⟨.imm, by decide, by decide⟩ (by decide)
    have hpar : marshalProtected C01.exPar.h = .ok [0x43, 0xa1, 0x01, 0x26] := C01.exHd_mpP
    have hps : blen C01.exPar.sig ≠ 0 := by simp [C01.exPar, blen]
    have hpp : C01.exPar.payload = some [1, 2, 3] := rfl
    simp [Countersignature.verify, hz, hg, Countersignature.toBeSigned, hmpS, countersignToBeSigned,
      hpar, hps, hpp, hd1, hd2, bind, Out.bind]
  obtain ⟨raw, content, -, pm, tbs, -, hrp, hc, hdc, hg, hcalls, -⟩ :=
    C04.countersignature_verify_consults_wire_alg _ exSlotD C01.exV7 (.sign1 C01.exPar) none hd hok
  refine ⟨raw, content, pm, tbs, hrp, hc, hdc, ?_, hcalls⟩
  rcases hg with h | ⟨-, hx⟩
  · exact h
  · simp at hx

end SignClearExamples
