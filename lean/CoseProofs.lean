import CoseModel
