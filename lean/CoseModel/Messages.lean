/-
  CoseModel.Messages — cbor.go (byteString, deterministicBinaryString), the header-bucket
  decoders, and sign1.go / sign.go / countersign.go: decode, encode, ToBeSigned, Sign, Verify.
  Decoders are written over the wire tree produced by `parseTop`; `raw` header bytes are the
  bytes of the corresponding subtree (`CoseProofs.Lemmas.Parse.parse_sound` shows these are
  exactly the input's sub-slices).
-/
import CoseModel.Headers
import CoseModel.TagScan
namespace CoseModel

structure Hdrs where
  rawP : Option Bytes := none
  p : GoMap := []
  rawU : Option Bytes := none
  u : GoMap := []
  deriving Repr, Inhabited

structure SigV where
  h : Hdrs := {}
  sig : Option Bytes := none
  deriving Repr, Inhabited

structure Sign1Msg where
  h : Hdrs := {}
  payload : Option Bytes := none
  sig : Option Bytes := none
  deriving Repr, Inhabited

structure SignMsg where
  h : Hdrs := {}
  payload : Option Bytes := none
  sigs : List SigV := []
  deriving Repr, Inhabited

def SigV.toVal (s : SigV) : GoVal := .csig s.h.rawP s.h.p s.h.rawU s.h.u s.sig

def blen (o : Option Bytes) : Nat := (o.getD []).length

/-! ### cbor.go -/

/-- `byteString.UnmarshalCBOR` on one well-formed item: `f6` → nil, bstr → bytes. -/
def decByteString : Wire → Out (Option Bytes)
  | .prim .imm 22 => .ok none
  | .bstr _ b => .ok (some b)
  | _ => .err .other

/-- `deterministicBinaryString` (cbor.go:89), byte for byte. -/
def detBstr (data : Bytes) : Out Bytes :=
  match data with
  | [] => .err .other
  | b0 :: rest =>
    if b0.toNat / 32 ≠ 2 then .err .other else
    match parseTop false data with
    | none => .err .other
    | some w =>
      let ai := b0.toNat % 32
      if ai < 24 then .ok data
      else
        let fast : Bool :=
          match ai, rest with
          | 24, b1 :: _ => b1.toNat ≥ 24
          | 25, b1 :: _ => b1.toNat ≠ 0
          | 26, b1 :: b2 :: _ => b1.toNat ≠ 0 || b2.toNat ≠ 0
          | 27, b1 :: b2 :: b3 :: b4 :: _ => b1.toNat ≠ 0 || b2.toNat ≠ 0 || b3.toNat ≠ 0 || b4.toNat ≠ 0
          | _, _ => false
        if fast then .ok data
        else match w with
          | .bstr _ s => .ok (encBstr s)
          | _ => .err .other

/-! ### header-bucket decoders -/

/-- the decode of `validateHeaderLabelCBOR` (into `map[headerLabelValidator]discardedCBORMessage`)
    on the entries of a map: every key an int within int64 or valid UTF-8 text, no duplicates
    after conversion.  The decoder strips leading 55799 tags before it hands a key to
    `headerLabelValidator.UnmarshalCBOR`, which refuses any other tag (`data[0]>>5` is 6); the
    keys that got through wrapped in 55799 are refused next, by `headerLabelsUntagged`. -/
def labelsOK : List (Wire × Wire) → List GoVal → Out Unit
  | [], _ => .ok ()
  | (k, _) :: r, seen =>
    match k.stripSelfDescribed with
    | .tag .. => .err .other
    | .uint _ n =>
      if n ≤ maxInt64 then
        let key := GoVal.int .i64 n
        if seen.any (fun e => e.keyEq key) then .err .other else labelsOK r (key :: seen)
      else .err .other
    | .nint _ n =>
      if n ≤ maxInt64 then
        let key := GoVal.int .i64 (-1 - (n : Int))
        if seen.any (fun e => e.keyEq key) then .err .other else labelsOK r (key :: seen)
      else .err .other
    | .tstr _ b =>
      if utf8Valid b then
        let key := GoVal.str b
        if seen.any (fun e => e.keyEq key) then .err .other else labelsOK r (key :: seen)
      else .err .other
    | _ => .err .other

/-- the alg retyping done by `ProtectedHeader.UnmarshalCBOR` (headers.go:104) -/
def castAlg (m : GoMap) : GoMap :=
  match algorithmOf m with
  | .found a => m.set (lbl 1) (.alg a)
  | _ => m

/-- content of a protected byte string → parsed protected map -/
def decProtectedContent (enc : Bytes) : Out GoMap :=
  match enc with
  | [] => .ok []
  | b0 :: _ =>
    if b0.toNat / 32 ≠ 5 then .err .other else
    match parseTop true enc with
    | some (.map _ kvs) => do
        labelsOK kvs []
        if !headerLabelsUntagged enc then .err .other else
        let m ← decodePairs kvs []
        if !validateHeaderParameters m true then .err .other
        else .ok (castAlg m)
    | _ => .err .other

/-- `ProtectedHeader.UnmarshalCBOR` on one well-formed item -/
def decProtected (w : Wire) : Out GoMap :=
  match w with
  | .bstr _ enc => decProtectedContent enc
  | _ => .err .other

def isCsigLabel (k : GoVal) : Bool :=
  match normalizeLabel k with
  | some (.int _ 7) => true
  | some (.int _ 11) => true
  | _ => false

/-
  The unprotected bucket, with typed countersignature values (headers.go:256-324), and the
  COSE_Signature decoder it re-enters (sign.go:91).  Mutual structural recursion on the tree.
  `env` = this item was already checked with tags forbidden (inside a message envelope).
-/
mutual
/-- `(*Signature).UnmarshalCBOR` given the item's fields -/
def decSigFields : List Wire → Out GoVal
  | [p, u, s] =>
    match decByteString s with
    | .ok sg =>
      if blen sg = 0 then .err .emptySig else
      (match decProtected p with
       | .ok pm =>
         (match decUnprot u with
          | .ok um =>
            if !ensureIV pm um then .err .other
            else .ok (.csig (some p.bytes) pm (some u.bytes) um sg)
          | .err e => .err e | .panic => .panic | .unmodelled => .unmodelled)
       | .err e => .err e | .panic => .panic | .unmodelled => .unmodelled)
    | .err e => .err e | .panic => .panic | .unmodelled => .unmodelled
  | _ => .err .other
/-- `UnprotectedHeader.UnmarshalCBOR` on one well-formed item -/
def decUnprot : Wire → Out GoMap
  | .map hw kvs =>
    match labelsOK kvs [] with
    | .ok _ =>
      if !headerLabelsUntagged (Wire.map hw kvs).bytes then .err .other else
      (match decUnprotPairs kvs with
       | .ok m => if validateHeaderParameters m false then .ok m else .err .other
       | .err e => .err e | .panic => .panic | .unmodelled => .unmodelled)
    | .err e => .err e | .panic => .panic | .unmodelled => .unmodelled
  | _ => .err .other
def decUnprotPairs : List (Wire × Wire) → Out GoMap
  | [] => .ok []
  | (k, v) :: r =>
    match decodeAny k with
    | .ok key =>
      let value := if isCsigLabel key then decCsigValue v else decodeAny v
      (match value, decUnprotPairs r with
       | .ok x, .ok m => .ok ((key, x) :: m)
       | .err e, _ => .err e
       | .ok _, .err e => .err e
       | .panic, _ => .panic
       | _, .panic => .panic
       | _, _ => .unmodelled)
    | .err e => .err e | .panic => .panic | .unmodelled => .unmodelled
/-- `unmarshalAsCountersignature`: one COSE_Signature, else a list of them
    (`null`/`undefined` decode to a nil list, list elements `null`/`undefined` to nil pointers) -/
def decCsigValue : Wire → Out GoVal
  | .arr w xs =>
    let single : Out GoVal := if w = .imm then decSigFields xs else .err .other
    (match single with
     | .ok c => .ok c
     | .unmodelled => .unmodelled
     | .panic => .panic
     | .err _ =>
       match decCsigList xs with
       | .ok l => .ok (.csigs l)
       | .err _ => .err .other
       | .panic => .panic
       | .unmodelled => .unmodelled)
  | .prim .imm 22 => .ok .csigsNil
  | .prim .imm 23 => .ok .csigsNil
  | _ => .err .other
def decCsigList : List Wire → Out (List GoVal)
  | [] => .ok []
  | x :: xs =>
    let one : Out GoVal :=
      match x with
      | .prim .imm 22 => .ok .csigNil
      | .prim .imm 23 => .ok .csigNil
      | .arr .imm ys => decSigFields ys
      | _ => .err .other
    match one, decCsigList xs with
    | .ok a, .ok b => .ok (a :: b)
    | .err e, _ => .err e
    | .ok _, .err e => .err e
    | .panic, _ => .panic
    | _, .panic => .panic
    | _, _ => .unmodelled
end

/-- `Headers.UnmarshalFromRaw` given the two header items of an envelope -/
def decHeaders (p u : Wire) : Out Hdrs := do
  let pm ← decProtected p
  let um ← decUnprot u
  if !ensureIV pm um then .err .other
  else .ok { rawP := some p.bytes, p := pm, rawU := some u.bytes, u := um }

def sigOfVal : GoVal → Option SigV
  | .csig rp p ru u s => some { h := { rawP := rp, p := p, rawU := ru, u := u }, sig := s }
  | _ => none

/-- `(*Signature).UnmarshalCBOR(data)` / `(*Countersignature).UnmarshalCBOR(data)` -/
def Signature.unmarshal (data : Bytes) : Out SigV :=
  match data with
  | 0x83 :: _ =>
    (match parseTop false data with
     | some (.arr _ xs) =>
       (match decSigFields xs with
        | .ok v => (match sigOfVal v with | some s => .ok s | none => .err .other)
        | .err e => .err e | .panic => .panic | .unmodelled => .unmodelled)
     | _ => .err .other)
  | _ => .err .other

/-- `Sign1Message.doUnmarshal` on the array item -/
def Sign1.decodeArr (data : Bytes) : Out Sign1Msg :=
  match parseTop false data with
  | some (.arr _ [p, u, pl, sg]) => do
      let payload ← decByteString pl
      let sig ← decByteString sg
      if blen sig = 0 then .err .emptySig else
      let h ← decHeaders p u
      .ok { h := h, payload := payload, sig := sig }
  | _ => .err .other

/-- `Sign1Message.UnmarshalCBOR` (tagged) and `UntaggedSign1Message.UnmarshalCBOR` -/
def Sign1.unmarshal (tagged : Bool) (data : Bytes) : Out Sign1Msg :=
  if tagged then
    match data with
    | 0xd2 :: 0x84 :: r => Sign1.decodeArr (0x84 :: r)
    | _ => .err .other
  else
    match data with
    | 0x84 :: r => Sign1.decodeArr (0x84 :: r)
    | _ => .err .other

def decSigList : List Wire → Out (List SigV)
  | [] => .ok []
  | x :: xs =>
    -- sig.UnmarshalCBOR(sigCBOR): prefix 0x83 then the fields
    let one : Out GoVal := match x with
      | .arr .imm ys => decSigFields ys
      | _ => .err .other
    match one, decSigList xs with
    | .ok a, .ok b => (match sigOfVal a with | some s => .ok (s :: b) | none => .err .other)
    | .err e, _ => .err e
    | .ok _, .err e => .err e
    | .panic, _ => .panic
    | _, .panic => .panic
    | _, _ => .unmodelled

/-- `SignMessage.UnmarshalCBOR` -/
def Sign.unmarshal (data : Bytes) : Out SignMsg :=
  match data with
  | 0xd8 :: 0x62 :: 0x84 :: r =>
    (match parseTop false (0x84 :: r) with
     | some (.arr _ [p, u, pl, sgs]) => do
        let payload ← decByteString pl
        -- Signatures []cbor.RawMessage: an array (nil/undefined give a nil slice → ErrNoSignatures)
        let items ← (match sgs with
          | .arr _ xs => Out.ok xs
          | .prim .imm 22 => Out.ok []
          | .prim .imm 23 => Out.ok []
          | _ => Out.err .other)
        if items.isEmpty then .err .noSignatures else
        let sigs ← decSigList items
        let h ← decHeaders p u
        .ok { h := h, payload := payload, sigs := sigs }
     | _ => .err .other)
  | _ => .err .other

/-- direct call of `ProtectedHeader.UnmarshalCBOR(data)` -/
def Protected.unmarshal (data : Bytes) : Out GoMap :=
  match parseTop false data with
  | some w => decProtected w
  | none => .err .other

/-- direct call of `UnprotectedHeader.UnmarshalCBOR(data)` -/
def Unprotected.unmarshal (data : Bytes) : Out GoMap :=
  match data with
  | [] => .err .other
  | b0 :: _ =>
    if b0.toNat / 32 ≠ 5 then .err .other else
    match parseTop true data with
    | some w =>
      -- `decModeWithTagsForbidden.Wellformed(data)` comes first: no tag anywhere in the bucket,
      -- decoded on its own as inside a message
      if w.hasTag then .err .other
      else decUnprot w
    | none => .err .other

/-! ### encoders -/

def Hdrs.modelled (h : Hdrs) : Bool := GoVal.modelledPairs h.p && GoVal.modelledPairs h.u

/-- `Headers.MarshalProtected` -/
def marshalProtected (h : Hdrs) : Out Bytes :=
  if !GoVal.modelledPairs h.p then .unmodelled else
  match encodeBucket encCfg true h.rawP h.p with
  | some b => .ok b
  | none => .err .other

/-- `Headers.MarshalUnprotected`: `RawUnprotected` verbatim when non-empty, else
    `UnprotectedHeader.MarshalCBOR`, whose fresh bytes must pass
    `decModeWithTagsForbidden.Wellformed` (headers.go:256) — both inside `encodeBucket`, which
    nested `*Countersignature` values go through as well. -/
def marshalUnprotected (h : Hdrs) : Out Bytes :=
  if !GoVal.modelledPairs h.u then .unmodelled else
  match encodeBucket encCfg false h.rawU h.u with
  | some b => .ok b
  | none => .err .other

/-- `Headers.marshal` -/
def Hdrs.marshal (h : Hdrs) : Out (Bytes × Bytes) :=
  if !ensureIV h.p h.u then .err .other else do
  let p ← marshalProtected h
  let u ← marshalUnprotected h
  .ok (p, u)

/-- `Sign1Message.getContent` + the toarray struct encoding -/
def Sign1.content (m : Sign1Msg) : Out Bytes :=
  if blen m.sig = 0 then .err .emptySig else do
  let (p, u) ← m.h.marshal
  .ok (0x84 :: (p ++ (u ++ (optBytesEnc m.payload ++ encBstr (m.sig.getD [])))))

def Sign1.marshal (tagged : Bool) (m : Sign1Msg) : Out Bytes := do
  let c ← Sign1.content m
  .ok (if tagged then 0xd2 :: c else c)

/-- `Signature.MarshalCBOR` / `Countersignature.MarshalCBOR` -/
def Signature.marshal (s : SigV) : Out Bytes :=
  if blen s.sig = 0 then .err .emptySig else do
  let (p, u) ← s.h.marshal
  .ok (0x83 :: (p ++ (u ++ encBstr (s.sig.getD []))))

def marshalSigs : List SigV → Out Bytes
  | [] => .ok []
  | s :: r => do
    let a ← Signature.marshal s
    let b ← marshalSigs r
    .ok (a ++ b)

/-- `SignMessage.MarshalCBOR` -/
def Sign.marshal (m : SignMsg) : Out Bytes :=
  if m.sigs.isEmpty then .err .noSignatures else do
  let (p, u) ← m.h.marshal
  let ss ← marshalSigs m.sigs
  .ok (0xd8 :: 0x62 :: 0x84 :: (p ++ (u ++ (optBytesEnc m.payload ++ (encHead 4 m.sigs.length ++ ss)))))

/-! ### signers and verifiers as oracles -/

structure Signer where
  alg : Int
  sign : Bytes → Out Bytes

structure Verifier where
  alg : Int
  verify : Bytes → Bytes → Out Unit

/-- context strings (regenerated from the source by the fact extractor and compared with
    these in `CoseProofs.Props.C02`/`C10`) -/
def ctxSignature1 : Bytes := "Signature1".toUTF8.toList
def ctxSignature : Bytes := "Signature".toUTF8.toList
def ctxCounterSignature : Bytes := "CounterSignature".toUTF8.toList
def ctxCounterSignature0 : Bytes := "CounterSignature0".toUTF8.toList
def ctxCounterSignatureV2 : Bytes := "CounterSignatureV2".toUTF8.toList
def ctxCounterSignature0V2 : Bytes := "CounterSignature0V2".toUTF8.toList

/-- `Sign1Message.toBeSigned` -/
def Sign1.toBeSigned (m : Sign1Msg) (external : Option Bytes) : Out Bytes := do
  let p ← marshalProtected m.h
  let p' ← detBstr p
  .ok (encHead 4 4 ++ (encTstr ctxSignature1 ++ (p' ++ (encBstr (external.getD []) ++ optBytesEnc m.payload))))

/-- result of a mutating call: new receiver state, returned error (or ok), contents handed
    to the key -/
structure Res (α : Type) where
  state : α
  out : Out Unit
  calls : List Bytes := []

/-- `Sign1Message.Sign` -/
def Sign1.sign (m : Sign1Msg) (external : Option Bytes) (s : Signer) : Res Sign1Msg :=
  if m.payload.isNone then ⟨m, .err .missingPayload, []⟩
  else if blen m.sig > 0 then ⟨m, .err .other, []⟩
  else match ensureSigningAlgorithm m.h.rawP m.h.p s.alg external with
    | .ok p' =>
      let m1 : Sign1Msg := { m with h := { m.h with p := p' } }
      (match Sign1.toBeSigned m1 external with
       | .ok tbs =>
         (match s.sign tbs with
          | .ok sig =>
            -- a signer that reports success must have produced a signature
            if sig.length = 0 then ⟨m1, .err .emptySig, [tbs]⟩
            else ⟨{ m1 with sig := some sig }, .ok (), [tbs]⟩
          | .err e => ⟨m1, .err e, [tbs]⟩
          | .panic => ⟨m1, .panic, [tbs]⟩
          | .unmodelled => ⟨m1, .unmodelled, [tbs]⟩)
       | .err e => ⟨m1, .err e, []⟩
       | .panic => ⟨m1, .panic, []⟩
       | .unmodelled => ⟨m1, .unmodelled, []⟩)
    | .err e => ⟨m, .err e, []⟩
    | .panic => ⟨m, .panic, []⟩
    | .unmodelled => ⟨m, .unmodelled, []⟩

/-- `Sign1Message.Verify`: result and the (content, signature) pairs handed to the verifier -/
def Sign1.verify (m : Sign1Msg) (external : Option Bytes) (v : Verifier) : Out Unit × List Bytes :=
  if m.payload.isNone then (.err .missingPayload, [])
  else if blen m.sig = 0 then (.err .emptySig, [])
  else match ensureVerificationAlgorithm m.h.p v.alg external with
    | .ok _ =>
      (match Sign1.toBeSigned m external with
       | .ok tbs => (v.verify tbs (m.sig.getD []), [tbs])
       | .err e => (.err e, [])
       | .panic => (.panic, [])
       | .unmodelled => (.unmodelled, []))
    | .err e => (.err e, [])
    | .panic => (.panic, [])
    | .unmodelled => (.unmodelled, [])

/-- `Signature.toBeSigned` -/
def Signature.toBeSigned (s : SigV) (bodyProtected : Bytes) (payload : Option Bytes)
    (external : Option Bytes) : Out Bytes := do
  let bp ← detBstr bodyProtected
  let sp ← marshalProtected s.h
  let sp' ← detBstr sp
  .ok (encHead 4 5 ++ (encTstr ctxSignature ++ (bp ++ (sp' ++ (encBstr (external.getD []) ++ optBytesEnc payload)))))

def bodyProtOK (bprot : Bytes) : Bool :=
  match bprot with
  | b :: _ => b.toNat / 32 = 2
  | [] => false

/-- `Signature.Sign` -/
def Signature.sign (sg : SigV) (s : Signer) (bprot : Bytes) (payload external : Option Bytes) :
    Res SigV :=
  if payload.isNone then ⟨sg, .err .missingPayload, []⟩
  else if blen sg.sig > 0 then ⟨sg, .err .other, []⟩
  else if !bodyProtOK bprot then ⟨sg, .err .other, []⟩
  else match ensureSigningAlgorithm sg.h.rawP sg.h.p s.alg external with
    | .ok p' =>
      let s1 : SigV := { sg with h := { sg.h with p := p' } }
      (match Signature.toBeSigned s1 bprot payload external with
       | .ok tbs =>
         (match s.sign tbs with
          | .ok sig =>
            -- a signer that reports success must have produced a signature
            if sig.length = 0 then ⟨s1, .err .emptySig, [tbs]⟩
            else ⟨{ s1 with sig := some sig }, .ok (), [tbs]⟩
          | .err e => ⟨s1, .err e, [tbs]⟩
          | .panic => ⟨s1, .panic, [tbs]⟩
          | .unmodelled => ⟨s1, .unmodelled, [tbs]⟩)
       | .err e => ⟨s1, .err e, []⟩
       | .panic => ⟨s1, .panic, []⟩
       | .unmodelled => ⟨s1, .unmodelled, []⟩)
    | .err e => ⟨sg, .err e, []⟩
    | .panic => ⟨sg, .panic, []⟩
    | .unmodelled => ⟨sg, .unmodelled, []⟩

/-- `Signature.Verify` -/
def Signature.verify (sg : SigV) (v : Verifier) (bprot : Bytes) (payload external : Option Bytes) :
    Out Unit × List Bytes :=
  if payload.isNone then (.err .missingPayload, [])
  else if blen sg.sig = 0 then (.err .emptySig, [])
  else if !bodyProtOK bprot then (.err .other, [])
  else match ensureVerificationAlgorithm sg.h.p v.alg external with
    | .ok _ =>
      (match Signature.toBeSigned sg bprot payload external with
       | .ok tbs => (v.verify tbs (sg.sig.getD []), [tbs])
       | .err e => (.err e, [])
       | .panic => (.panic, [])
       | .unmodelled => (.unmodelled, []))
    | .err e => (.err e, [])
    | .panic => (.panic, [])
    | .unmodelled => (.unmodelled, [])

/-- the per-index loop of `SignMessage.Sign` (sign.go:423): stops at the first error;
    signatures before the failing index are filled, the failing one keeps its (possibly
    alg-injected) headers and no signature, later ones are untouched. -/
def signLoop (bprot : Bytes) (payload external : Option Bytes) :
    List SigV → List Signer → List SigV × Out Unit × List Bytes
  | sg :: sgs, s :: ss =>
    let r := Signature.sign sg s bprot payload external
    (match r.out with
     | .ok _ =>
       let (rest, o, calls) := signLoop bprot payload external sgs ss
       (r.state :: rest, o, r.calls ++ calls)
     | o => (r.state :: sgs, o, r.calls))
  | sgs, _ => (sgs, .ok (), [])

/-- `SignMessage.Sign` -/
def Sign.sign (m : SignMsg) (external : Option Bytes) (signers : List Signer) : Res SignMsg :=
  if m.payload.isNone then ⟨m, .err .missingPayload, []⟩
  else if m.sigs.isEmpty then ⟨m, .err .noSignatures, []⟩
  else if m.sigs.length ≠ signers.length then ⟨m, .err .other, []⟩
  else match marshalProtected m.h with
    | .ok bprot =>
      let (sigs, o, calls) := signLoop bprot m.payload external m.sigs signers
      ⟨{ m with sigs := sigs }, o, calls⟩
    | .err e => ⟨m, .err e, []⟩
    | .panic => ⟨m, .panic, []⟩
    | .unmodelled => ⟨m, .unmodelled, []⟩

def verifyLoop (bprot : Bytes) (payload external : Option Bytes) :
    List SigV → List Verifier → Out Unit × List Bytes
  | sg :: sgs, v :: vs =>
    let (o, calls) := Signature.verify sg v bprot payload external
    (match o with
     | .ok _ =>
       let (o', calls') := verifyLoop bprot payload external sgs vs
       (o', calls ++ calls')
     | o => (o, calls))
  | _, _ => (.ok (), [])

/-- `SignMessage.Verify` -/
def Sign.verify (m : SignMsg) (external : Option Bytes) (verifiers : List Verifier) :
    Out Unit × List Bytes :=
  if m.payload.isNone then (.err .missingPayload, [])
  else if m.sigs.isEmpty then (.err .noSignatures, [])
  else if m.sigs.length ≠ verifiers.length then (.err .other, [])
  else match marshalProtected m.h with
    | .ok bprot => verifyLoop bprot m.payload external m.sigs verifiers
    | .err e => (.err e, [])
    | .panic => (.panic, [])
    | .unmodelled => (.unmodelled, [])

/-! ### countersignatures (countersign.go) -/

/-- what `countersignToBeSigned` can be handed (pointer and value forms behave alike) -/
inductive Parent
  | sign1 (m : Sign1Msg)
  | sign (m : SignMsg)
  | signature (s : SigV)
  | countersignature (s : SigV)
  | unsupported

/-- `countersignToBeSigned` -/
def countersignToBeSigned (abbreviated : Bool) (target : Parent) (signProtected : Bytes)
    (external : Option Bytes) : Out Bytes :=
  -- (bodyProtected, payload, otherFields)
  let fields : Out (Bytes × Option Bytes × Option Bytes) :=
    match target with
    | .sign m =>
      if m.sigs.isEmpty then .err .other else
      -- every signer slot must hold a signature (a nil `*Signature` has none either)
      if m.sigs.any (fun s => blen s.sig = 0) then .err .other else
      (match marshalProtected m.h with
       | .ok bp => if m.payload.isNone then .err .missingPayload else .ok (bp, m.payload, none)
       | .err e => .err e | .panic => .panic | .unmodelled => .unmodelled)
    | .sign1 m =>
      if blen m.sig = 0 then .err .other else
      (match marshalProtected m.h with
       | .ok bp =>
         if m.payload.isNone then .err .missingPayload
         else .ok (bp, m.payload, some (encBstr (m.sig.getD [])))
       | .err e => .err e | .panic => .panic | .unmodelled => .unmodelled)
    | .signature s =>
      (match marshalProtected s.h with
       | .ok bp => if blen s.sig = 0 then .err .other else .ok (bp, s.sig, none)
       | .err e => .err e | .panic => .panic | .unmodelled => .unmodelled)
    | .countersignature s =>
      (match marshalProtected s.h with
       | .ok bp => if blen s.sig = 0 then .err .other else .ok (bp, s.sig, none)
       | .err e => .err e | .panic => .panic | .unmodelled => .unmodelled)
    | .unsupported => .err .other
  match fields with
  | .ok (bodyProtected, payload, other) => do
    let ctx := match other, abbreviated with
      | none, true => ctxCounterSignature0
      | none, false => ctxCounterSignature
      | some _, true => ctxCounterSignature0V2
      | some _, false => ctxCounterSignatureV2
    let bp ← detBstr bodyProtected
    let sp ← detBstr signProtected
    let base := encTstr ctx ++ (bp ++ (sp ++ (encBstr (external.getD []) ++ optBytesEnc payload)))
    match other with
    | none => .ok (encHead 4 5 ++ base)
    | some sigEnc => .ok (encHead 4 6 ++ (base ++ (encHead 4 1 ++ sigEnc)))
  | .err e => .err e
  | .panic => .panic
  | .unmodelled => .unmodelled

def Countersignature.toBeSigned (s : SigV) (target : Parent) (external : Option Bytes) : Out Bytes := do
  let sp ← marshalProtected s.h
  countersignToBeSigned false target sp external

/-- `Countersignature.Sign` -/
def Countersignature.sign (cs : SigV) (s : Signer) (parent : Parent) (external : Option Bytes) :
    Res SigV :=
  if blen cs.sig > 0 then ⟨cs, .err .other, []⟩
  else match ensureSigningAlgorithm cs.h.rawP cs.h.p s.alg external with
    | .ok p' =>
      let s1 : SigV := { cs with h := { cs.h with p := p' } }
      (match Countersignature.toBeSigned s1 parent external with
       | .ok tbs =>
         (match s.sign tbs with
          | .ok sig =>
            -- a signer that reports success must have produced a signature
            if sig.length = 0 then ⟨s1, .err .emptySig, [tbs]⟩
            else ⟨{ s1 with sig := some sig }, .ok (), [tbs]⟩
          | .err e => ⟨s1, .err e, [tbs]⟩
          | .panic => ⟨s1, .panic, [tbs]⟩
          | .unmodelled => ⟨s1, .unmodelled, [tbs]⟩)
       | .err e => ⟨s1, .err e, []⟩
       | .panic => ⟨s1, .panic, []⟩
       | .unmodelled => ⟨s1, .unmodelled, []⟩)
    | .err e => ⟨cs, .err e, []⟩
    | .panic => ⟨cs, .panic, []⟩
    | .unmodelled => ⟨cs, .unmodelled, []⟩

/-- `Countersignature.Verify` -/
def Countersignature.verify (cs : SigV) (v : Verifier) (parent : Parent) (external : Option Bytes) :
    Out Unit × List Bytes :=
  if blen cs.sig = 0 then (.err .emptySig, [])
  else match ensureVerificationAlgorithm cs.h.p v.alg external with
    | .ok _ =>
      (match Countersignature.toBeSigned cs parent external with
       | .ok tbs => (v.verify tbs (cs.sig.getD []), [tbs])
       | .err e => (.err e, [])
       | .panic => (.panic, [])
       | .unmodelled => (.unmodelled, []))
    | .err e => (.err e, [])
    | .panic => (.panic, [])
    | .unmodelled => (.unmodelled, [])

/-- `Countersign0`: returns what the signer returns, an empty signature being an error -/
def countersign0 (s : Signer) (parent : Parent) (external : Option Bytes) : Out Bytes × List Bytes :=
  match countersignToBeSigned true parent [0x40] external with
  | .ok tbs =>
    (match s.sign tbs with
     | .ok sig => if sig.length = 0 then (.err .emptySig, [tbs]) else (.ok sig, [tbs])
     | o => (o, [tbs]))
  | .err e => (.err e, [])
  | .panic => (.panic, [])
  | .unmodelled => (.unmodelled, [])

/-- `VerifyCountersign0` -/
def verifyCountersign0 (v : Verifier) (parent : Parent) (external : Option Bytes) (sig : Bytes) :
    Out Unit × List Bytes :=
  match countersignToBeSigned true parent [0x40] external with
  | .ok tbs => (v.verify tbs sig, [tbs])
  | .err e => (.err e, [])
  | .panic => (.panic, [])
  | .unmodelled => (.unmodelled, [])

end CoseModel
