/-
  CoseModel.Key — key.go: COSE_Key decode / encode / validate and the conversions to Go keys,
  signers and verifiers.  Cryptographic facts about a point (is it on the curve, does
  crypto/ecdh support the curve) are an input classification, not modelled.
-/
import CoseModel.Headers
import CoseModel.Ecdsa
import CoseModel.TagScan
namespace CoseModel

structure Key where
  kty : Int := 0
  id : Option Bytes := none
  alg : Int := 0
  ops : Option (List Int) := none
  baseIV : Option Bytes := none
  params : GoMap := []
  deriving Repr, Inhabited

/-- `decodeInt(dic, lbl)` outcome: absent / value / wrong type -/
inductive Lk (α : Type) | absent | val (a : α) | bad
  deriving Repr

/-- `reflect.ValueOf(v).CanInt()` values: every signed Go integer kind incl. named ones -/
def paramInt (m : GoMap) (l : Int) : Lk Int :=
  match m.lookup (lbl l) with
  | none => .absent
  | some (.int k v) => if k.signed then .val v else .bad
  | some (.alg v) => .val v
  | some (.crv v) => .val v
  | some _ => .bad

/-- `decodeBytes`: `[]byte` (a typed nil included) else error (reflect panic recovered) -/
def paramBytes (m : GoMap) (l : Int) : Lk (Option Bytes) :=
  match m.lookup (lbl l) with
  | none => .absent
  | some (.bytes b) => .val (some b)
  | some .bytesNil => .val none
  | some _ => .bad

def Lk.getD : Lk α → α → α
  | .val a, _ => a
  | _, d => d

/-- `Key.ParamBytes` result (nil unless present and well typed) -/
def Key.pbytes (k : Key) (l : Int) : Bytes := ((paramBytes k.params l).getD none).getD []
def Key.crv (k : Key) : Int := (paramInt k.params (-1)).getD 0

def curveSize (crv : Int) : Nat :=
  if crv = 1 then 32 else if crv = 2 then 48 else if crv = 3 then 66 else 0

inductive KOp | none | sign | verify
  deriving DecidableEq

/-- `deriveAlgorithm` -/
def Key.deriveAlgorithm (k : Key) : Option Int :=
  if k.kty = 2 then
    (if k.crv = 1 then some (-7) else if k.crv = 2 then some (-35) else if k.crv = 3 then some (-36) else none)
  else if k.kty = 1 then
    (if k.crv = 6 then some (-8) else none)
  else none

/-- `Key.paramIsBstr(label, orBool)` (key.go:551): the parameter is absent or a byte string
    (`[]byte`, a typed nil included) or, with `orBool`, a boolean -/
def Key.paramIsBstr (k : Key) (l : Int) (orBool : Bool) : Bool :=
  match k.params.lookup (lbl l) with
  | none => true
  | some (.bytes _) => true
  | some .bytesNil => true
  | some (.bool _) => orBool
  | some _ => false

/-- `Key.validate(op)`: `none` = valid, `some e` = the error class -/
def Key.validate (k : Key) (op : KOp) : Option Err :=
  let structural : Option Err :=
    if k.kty = 2 then
      -- x and d are byte strings, y a byte string or the sign bit
      if !k.paramIsBstr (-2) false || !k.paramIsBstr (-3) true || !k.paramIsBstr (-4) false then
        some .invalidKey else
      let x := k.pbytes (-2); let y := k.pbytes (-3); let d := k.pbytes (-4)
      if op = .verify ∧ (x.length = 0 ∨ y.length = 0) then some .ec2NoPub
      else if op = .sign ∧ d.length = 0 then some .notPriv
      else if k.crv = 0 ∨ (x.length = 0 ∧ y.length = 0 ∧ d.length = 0) then some .invalidKey
      else if curveSize k.crv > 0 ∧ (x.length > curveSize k.crv ∨ y.length > curveSize k.crv ∨ d.length > curveSize k.crv)
        then some .invalidKey
      else if k.crv = 4 ∨ k.crv = 5 ∨ k.crv = 6 ∨ k.crv = 7 then some .invalidKey
      else none
    else if k.kty = 1 then
      -- x and d are byte strings
      if !k.paramIsBstr (-2) false || !k.paramIsBstr (-4) false then some .invalidKey else
      let x := k.pbytes (-2); let d := k.pbytes (-4)
      if op = .verify ∧ x.length = 0 then some .okpNoPub
      else if op = .sign ∧ d.length = 0 then some .notPriv
      else if k.crv = 0 ∨ (x.length = 0 ∧ d.length = 0) then some .invalidKey
      else if (x.length > 0 ∧ x.length ≠ 32) ∨ (d.length > 0 ∧ d.length ≠ 32) then some .invalidKey
      else if k.crv = 1 ∨ k.crv = 2 ∨ k.crv = 3 then some .invalidKey
      else none
    else if k.kty = 4 then
      (if (k.pbytes (-1)).length = 0 then some .invalidKey else none)
    else if k.kty = 0 then some .invalidKey
    else none
  match structural with
  | some e => some e
  | none =>
    if k.alg ≠ 0 then
      match k.deriveAlgorithm with
      | none => some .other
      | some a => if k.alg ≠ a then some .other else none
    else none

def Key.canOp (k : Key) (op : Int) : Bool :=
  match k.ops with
  | none => true
  | some l => l.any (· = op)

/-! ### decode -/

def keyOpFromString (s : Bytes) : Option Int :=
  if s = "sign".toUTF8.toList then some 1
  else if s = "verify".toUTF8.toList then some 2
  else if s = "encrypt".toUTF8.toList then some 3
  else if s = "decrypt".toUTF8.toList then some 4
  else if s = "wrapKey".toUTF8.toList then some 5
  else if s = "unwrapKey".toUTF8.toList then some 6
  else if s = "deriveKey".toUTF8.toList then some 7
  else if s = "deriveBits".toUTF8.toList then some 8
  else none

def decodeOps : List GoVal → Option (List Int)
  | [] => some []
  | .int .i64 v :: r => (decodeOps r).map (v :: ·)
  | .str s :: r =>
    (match keyOpFromString s, decodeOps r with
     | some v, some l => some (v :: l)
     | _, _ => none)
  | _ => none

/-- the loop over the remaining entries (key.go:637): labels int64 or string, the curve
    retyped to `Curve` for EC2/OKP keys (a non-integer curve is an error). -/
def keyParams (kty : Int) : GoMap → Option GoMap
  | [] => some []
  | (k, v) :: r =>
    match keyParams kty r with
    | none => none
    | some rest =>
      match k with
      | .int .i64 l =>
        if (kty = 2 ∨ kty = 1) ∧ l = -1 then
          (match v with
           | .int .i64 c => some ((k, .crv c) :: rest)
           | _ => none)
        else some ((k, v) :: rest)
      | .str _ => some ((k, v) :: rest)
      | _ => none

/-- `Key.UnmarshalCBOR` on the generically decoded map -/
def Key.ofMap (tmp : GoMap) : Out Key :=
  match tmp.lookup (lbl 1) with
  | some (.int .i64 kty) =>
    if kty = 0 then .err .other else
    let id := paramBytes tmp 2
    let alg := match tmp.lookup (lbl 3) with
      | none => Lk.val 0
      | some (.int .i64 a) => if a = 0 then Lk.bad else Lk.val a  -- the reserved value, present
      | some _ => Lk.bad
    let ops : Lk (Option (List Int)) := match tmp.lookup (lbl 4) with
      | none => Lk.val none
      | some (.arr l) => (match decodeOps l with | some o => Lk.val (some o) | none => Lk.bad)
      | some _ => Lk.bad
    let biv := paramBytes tmp 5
    (match id, alg, ops, biv with
     | .bad, _, _, _ => .err .other
     | _, .bad, _, _ => .err .other
     | _, _, .bad, _ => .err .other
     | _, _, _, .bad => .err .other
     | id, alg, ops, biv =>
       let rest := ((((tmp.erase (lbl 1)).erase (lbl 2)).erase (lbl 3)).erase (lbl 4)).erase (lbl 5)
       match keyParams kty rest with
       | none => .err .other
       | some params =>
         let k : Key := { kty := kty, id := id.getD none, alg := alg.getD 0, ops := ops.getD none,
                          baseIV := biv.getD none, params := params }
         match k.validate .none with
         | some _ => .err .other
         | none => .ok k)
  | _ => .err .other

/-- `Key.UnmarshalCBOR` (key.go:599).  A tag head is refused first (key.go:602).  Go then decodes
    into `map[any]any` and after that runs `ensureUntaggedHeaderLabels(data, nil)`; the two
    refusals are of one class, so their order does not show, and the model asks the scan first:
    it decides inputs on which the generic decode of tagged values is not modelled. -/
def Key.unmarshal (data : Bytes) : Out Key :=
  if isTagByte data then .err .other else
  match parseTop true data with
  | none => .err .other
  | some (.map _ kvs) =>
    if !ensureUntaggedHeaderLabels data none then .err .other else
    (match decodePairs kvs [] with
     | .ok tmp => Key.ofMap tmp
     | .err e => .err e
     | .panic => .panic
     | .unmodelled => .unmodelled)
  | some _ => .err .other

/-! ### encode -/

/-- entries of `tmp` in `Key.MarshalCBOR` (before CBOR encoding): the five common fields,
    then the parameters under their normalised labels (later assignments overwrite), then the
    left-padded EC2 coordinates. -/
def Key.marshalMap (k : Key) : Option GoMap :=
  let base : GoMap := [(lbl 1, .int .i64 k.kty)]
  let base := match k.id with | some b => base.set (lbl 2) (.bytes b) | none => base
  let base := if k.alg ≠ 0 then base.set (lbl 3) (.alg k.alg) else base
  let base := match k.ops with
    | some l => base.set (lbl 4) (.arr (l.map (fun o => .int .i64 o)))
    | none => base
  let base := match k.baseIV with | some b => base.set (lbl 5) (.bytes b) | none => base
  let rec go : GoMap → List GoVal → GoMap → Option GoMap
    | [], _, acc => some acc
    | (l, v) :: r, seen, acc =>
      match normalizeLabel l with
      | none => none
      | some nl =>
        if seen.any (fun e => e.keyEq nl) then none
        else go r (nl :: seen) (acc.set nl v)
  match go k.params [] base with
  | none => none
  | some m =>
    if k.kty = 2 then
      let size := curveSize k.crv
      if size > 0 then
        let x := k.pbytes (-2); let y := k.pbytes (-3)
        let m := if 0 < x.length ∧ x.length < size then m.set (lbl (-2)) (.bytes (leftPad size x)) else m
        let m := if 0 < y.length ∧ y.length < size then m.set (lbl (-3)) (.bytes (leftPad size y)) else m
        some m
      else some m
    else some m

def Key.marshal (k : Key) : Out Bytes :=
  match k.marshalMap with
  | none => .err .other
  | some m => marshalAny (.map m)

/-! ### conversions -/

/-- `Key.PublicKey()`: ok or error class -/
def Key.publicKey (k : Key) : Option Err :=
  match k.validate .verify with
  | some e => some e
  | none => match k.deriveAlgorithm with
    | none => some .other
    | some _ => none

def Key.privateKey (k : Key) : Option Err :=
  match k.validate .sign with
  | some e => some e
  | none => match k.deriveAlgorithm with
    | none => some .other
    | some a =>
      if a = -8 then none
      else if (k.pbytes (-2)).length = 0 ∨ (k.pbytes (-3)).length = 0 then some .invalidPriv
      else none

def Key.algorithmOrDefault (k : Key) : Option Int :=
  if k.alg ≠ 0 then some k.alg else k.deriveAlgorithm

/-- `Key.Signer()`: the signer's algorithm, or the error class -/
def Key.signer (k : Key) : Except Err Int :=
  if !k.canOp 1 then .error .opNotSupported else
  match k.privateKey with
  | some e => .error e
  | none => match k.algorithmOrDefault with
    | none => .error .other
    | some a => .ok a

/-- `Key.Verifier()`; `onCurve` = crypto/ecdh accepts the point (an input classification) -/
def Key.verifier (k : Key) (onCurve : Bool) : Except Err Int :=
  if !k.canOp 2 then .error .opNotSupported else
  match k.publicKey with
  | some e => .error e
  | none => match k.algorithmOrDefault with
    | none => .error .other
    | some a => if a = -8 then .ok a else if onCurve then .ok a else .error .invalidPub

/-- `ParamBytes` / `ParamInt` / `ParamUint` / `ParamString` / `ParamBool` success flags for one
    parameter (key.go:238-265): which typed accessors return ok for the stored value -/
def paramFlags (m : GoMap) (label : GoVal) : String :=
  match m.lookup label with
  | none => ""
  | some v =>
    (match v with | .bytes _ => "B" | .bytesNil => "B" | _ => "") ++
    (match v with
     | .int k _ => if k.signed then "I" else ""
     | .alg _ => "I" | .crv _ => "I" | _ => "") ++
    (match v with
     | .int k n => if k.signed then (if n ≥ 0 then "U" else "") else "U"
     | .alg n => if n ≥ 0 then "U" else ""
     | .crv n => if n ≥ 0 then "U" else ""
     | .simple _ => "U"      -- cbor.SimpleValue is a uint8 kind
     | _ => "") ++
    (match v with | .str _ => "S" | _ => "") ++
    (match v with | .bool _ => "T" | _ => "")

/-! ### Go keys to COSE_Key (NewKeyFromPublic / NewKeyFromPrivate, key.go:324-364) -/

def curveOfBits (bits : Nat) : Int := if bits = 256 then 1 else if bits = 384 then 2 else if bits = 521 then 3 else 0

/-- `ec2Coordinate(v, size)` (key.go): `v.Bytes()` — minimal length, leading zero octets are
    restored by `MarshalCBOR` — except that the coordinate 0 is `size` zero octets rather than the
    empty string (which would read as an absent coordinate) -/
def ec2Coordinate (v size : Nat) : Bytes :=
  if v = 0 then List.replicate size 0 else natBytes v

/-- `NewKeyEC2(alg, x, y, D.Bytes())` with `x, y := ec2Coordinates(pub)` for a key on the curve
    with `bits`; coordinates as natural numbers. -/
def keyFromEC (bits : Nat) (x y : Nat) (d : Option Nat) : Out Key :=
  let crv := curveOfBits bits
  if crv = 0 then .err .other else
  let alg : Int := if crv = 1 then -7 else if crv = 2 then -35 else -36
  let size := curveSize crv
  let params : GoMap := [(lbl (-1), .crv crv), (lbl (-2), .bytes (ec2Coordinate x size)), (lbl (-3), .bytes (ec2Coordinate y size))]
  let params := match d with | some dv => params ++ [(lbl (-4), .bytes (natBytes dv))] | none => params
  let k : Key := { kty := 2, alg := alg, params := params }
  match k.validate .none with
  | some e => .err e
  | none => .ok k

def keyFromEd (x : Bytes) (d : Option Bytes) : Out Key :=
  let params : GoMap := [(lbl (-1), .crv 6), (lbl (-2), .bytes x)]
  let params := match d with | some dv => params ++ [(lbl (-4), .bytes dv)] | none => params
  let k : Key := { kty := 1, alg := -8, params := params }
  match k.validate .none with
  | some e => .err e
  | none => .ok k

/-- `PublicKey()` / `PrivateKey()` coordinates of an EC2 key (`SetBytes` of the parameters) -/
def Key.ecCoords (k : Key) : Nat × Nat × Nat :=
  (os2ip (k.pbytes (-2)), os2ip (k.pbytes (-3)), os2ip (k.pbytes (-4)))

end CoseModel
