/-
  CoseModel.Notation — the text notation for Go values shared with the Go harness
  (DESIGN.md Appendix C): parser and printer.  Not part of the verified model; a bug here
  can only make the correspondence fail.
-/
import CoseModel.Key
import CoseModel.HashEnvelope
namespace CoseModel

/-! ### printing -/

def intStr (v : Int) : String := toString v

def hex16 (n : Nat) : String :=
  hexOfBytes (be8 n)

def optHexStr : Option Bytes → String
  | none => "-"
  | some b => hexOfBytes b

def joinWith (sep : String) : List String → String
  | [] => ""
  | [a] => a
  | a :: r => a ++ sep ++ joinWith sep r

def sortStrings (l : List String) : List String := l.mergeSort (fun a b => a ≤ b)

mutual
def GoVal.dump : GoVal → String
  | .nil => "n"
  | .int k v => k.name ++ ":" ++ intStr v
  | .alg v => "a:" ++ intStr v
  | .crv v => "c:" ++ intStr v
  | .str b => "s:" ++ hexOfBytes b
  | .bytes b => "b:" ++ hexOfBytes b
  | .bytesNil => "bn"
  | .bool b => if b then "t" else "f"
  | .simple n => "sv:" ++ toString n
  | .float bits => "f64:" ++ hex16 bits
  | .arr xs => "[" ++ joinWith "," (GoVal.dumpList xs) ++ "]"
  | .map kvs => "{" ++ joinWith "," (sortStrings (GoVal.dumpPairs kvs)) ++ "}"
  | .csig rp p ru u sig =>
      "cs(H(" ++ optHexStr rp ++ ";{" ++ joinWith "," (sortStrings (GoVal.dumpPairs p)) ++ "};"
        ++ optHexStr ru ++ ";{" ++ joinWith "," (sortStrings (GoVal.dumpPairs u)) ++ "});" ++ optHexStr sig ++ ")"
  | .csigNil => "csn"
  | .csigs cs => "csl[" ++ joinWith "," (GoVal.dumpList cs) ++ "]"
  | .csigsNil => "csln"
  | .opaque => "x"
def GoVal.dumpList : List GoVal → List String
  | [] => []
  | x :: xs => x.dump :: GoVal.dumpList xs
def GoVal.dumpPairs : List (GoVal × GoVal) → List String
  | [] => []
  | (k, v) :: r => (k.dump ++ "=" ++ v.dump) :: GoVal.dumpPairs r
end

def dumpMap (m : GoMap) : String := (GoVal.map m).dump

def Hdrs.dump (h : Hdrs) : String :=
  "H(" ++ optHexStr h.rawP ++ ";" ++ dumpMap h.p ++ ";" ++ optHexStr h.rawU ++ ";" ++ dumpMap h.u ++ ")"

def SigV.dump (s : SigV) : String := "cs(" ++ s.h.dump ++ ";" ++ optHexStr s.sig ++ ")"

def Sign1Msg.dump (m : Sign1Msg) : String :=
  "S1(" ++ m.h.dump ++ ";" ++ optHexStr m.payload ++ ";" ++ optHexStr m.sig ++ ")"

def SignMsg.dump (m : SignMsg) (nilSigs : Bool := false) : String :=
  "SM(" ++ m.h.dump ++ ";" ++ optHexStr m.payload ++ ";" ++
    (if nilSigs then "-" else "[" ++ joinWith "," (m.sigs.map SigV.dump) ++ "]") ++ ")"

def Key.dump (k : Key) : String :=
  "K(" ++ intStr k.kty ++ ";" ++ optHexStr k.id ++ ";" ++ intStr k.alg ++ ";" ++
    (match k.ops with
     | none => "-"
     | some l => "[" ++ joinWith "," (l.map intStr) ++ "]") ++ ";" ++ optHexStr k.baseIV ++ ";" ++
    dumpMap k.params ++ ")"

def hexList (l : List Bytes) : String := "[" ++ joinWith "," (l.map hexOfBytes) ++ "]"

/-! ### parsing -/

abbrev P (α : Type) := List Char → Option (α × List Char)

def eatStr (pre : String) (cs : List Char) : Option (List Char) :=
  let rec go : List Char → List Char → Option (List Char)
    | [], r => some r
    | p :: ps, c :: r => if p = c then go ps r else none
    | _ :: _, [] => none
  go pre.toList cs

def isHexC (c : Char) : Bool := ('0' ≤ c && c ≤ '9') || ('a' ≤ c && c ≤ 'f')

def takeHex : List Char → List Char × List Char
  | c :: r => if isHexC c then let (a, b) := takeHex r; (c :: a, b) else ([], c :: r)
  | [] => ([], [])

def pHexBytes : P Bytes := fun cs =>
  let (h, r) := takeHex cs
  match bytesOfHexChars h with
  | some b => some (b, r)
  | none => none

def pOptBytes : P (Option Bytes) := fun cs =>
  match cs with
  | '-' :: r => some (none, r)
  | '_' :: r => some (some [], r)
  | _ => match pHexBytes cs with
    | some (b, r) => some (some b, r)
    | none => none

def takeDigits : List Char → List Char × List Char
  | c :: r => if c.isDigit then let (a, b) := takeDigits r; (c :: a, b) else ([], c :: r)
  | [] => ([], [])

def pInt : P Int := fun cs =>
  let (neg, cs) := match cs with
    | '-' :: r => (true, r)
    | _ => (false, cs)
  let (ds, r) := takeDigits cs
  if ds.isEmpty then none else
  let n : Nat := ds.foldl (fun (acc : Nat) c => acc * 10 + (c.toNat - 48)) 0
  some (if neg then -(n : Int) else (n : Int), r)

def intKindOf : String → Option IntKind
  | "i" => some .i | "i8" => some .i8 | "i16" => some .i16 | "i32" => some .i32 | "i64" => some .i64
  | "u" => some .u | "u8" => some .u8 | "u16" => some .u16 | "u32" => some .u32 | "u64" => some .u64
  | _ => none

def sepBy (close : Char) (elem : P α) : Nat → List Char → Option (List α × List Char)
  | 0, _ => none
  | fuel + 1, cs =>
    match cs with
    | c :: r =>
      if c = close then some ([], r) else
      match elem (c :: r) with
      | none => none
      | some (x, r1) =>
        (match r1 with
         | ',' :: r2 =>
           (match sepBy close elem fuel r2 with
            | some (xs, r3) => some (x :: xs, r3)
            | none => none)
         | c2 :: r2 => if c2 = close then some ([x], r2) else none
         | [] => none)
    | [] => none

/-- a Go map literal: a later entry under the same Go key overwrites the earlier one -/
def collapse (kvs : GoMap) : GoMap := kvs.foldl (fun acc e => acc.set e.1 e.2) []

mutual
partial def pValue : P GoVal := fun cs =>
  let tryPre (pre : String) : Option (List Char) := eatStr pre cs
  if let some r := tryPre "csln" then some (.csigsNil, r)
  else if let some r := tryPre "csl[" then
    match sepBy ']' pValue (r.length + 2) r with
    | some (xs, r') => some (.csigs xs, r')
    | none => none
  else if let some r := tryPre "csn" then some (.csigNil, r)
  else if let some r := tryPre "cs(H(" then
    match pHdrFields r with
    | some ((rp, p, ru, u), r1) =>
      (match r1 with
       | ';' :: r2 =>
         (match pOptBytes r2 with
          | some (sig, ')' :: r3) => some (.csig rp p ru u sig, r3)
          | _ => none)
       | _ => none)
    | none => none
  else if let some r := tryPre "sv:" then
    match pInt r with
    | some (n, r') => some (.simple n.toNat, r')
    | none => none
  else if let some r := tryPre "s:" then
    match pHexBytes r with
    | some (b, r') => some (.str b, r')
    | none => none
  else if let some r := tryPre "bn" then some (.bytesNil, r)
  else if let some r := tryPre "b:" then
    match pHexBytes r with
    | some (b, r') => some (.bytes b, r')
    | none => none
  else if let some r := tryPre "f64:" then
    match pHexBytes r with
    | some (b, r') => some (.float (b.foldl (fun acc x => acc * 256 + x.toNat) 0), r')
    | none => none
  else if let some r := tryPre "a:" then
    match pInt r with
    | some (n, r') => some (.alg n, r')
    | none => none
  else if let some r := tryPre "c:" then
    match pInt r with
    | some (n, r') => some (.crv n, r')
    | none => none
  else if let some r := tryPre "[" then
    match sepBy ']' pValue (r.length + 2) r with
    | some (xs, r') => some (.arr xs, r')
    | none => none
  else if let some r := tryPre "{" then
    match sepBy '}' pEntry (r.length + 2) r with
    | some (kvs, r') => some (.map (collapse kvs), r')
    | none => none
  else if let some r := tryPre "n" then some (.nil, r)
  else if let some r := tryPre "bg:" then
    -- a Go big.Int value (hex magnitude, optional sign): outside the modelled region
    let r1 := match r with | '-' :: t => t | _ => r
    some (.opaque, r1.dropWhile fun c => c.isDigit || ('a' ≤ c && c ≤ 'f'))
  else if let some r := tryPre "tg:" then
    -- a Go cbor.Tag value `tg:N:VALUE`: outside the modelled region
    (match pInt r with
     | some (_, ':' :: r') => (match pValue r' with | some (_, r'') => some (.opaque, r'') | none => none)
     | _ => none)
  else if let some r := tryPre "tm:" then
    -- a Go time.Time value: outside the modelled region (the CBOR encoder's time options)
    (match pInt r with
     | some (_, r') => some (.opaque, r')
     | none => none)
  else if let some r := tryPre "t" then some (.bool true, r)
  else if let some r := tryPre "x" then some (.opaque, r)
  else
    -- integer kinds: KIND ':' INT
    let (name, rest) := cs.span (fun c => c != ':')
    match intKindOf (String.ofList name), rest with
    | some k, ':' :: r =>
      (match pInt r with
       | some (n, r') => some (.int k n, r')
       | none => none)
    | _, _ =>
      match cs with
      | 'f' :: r => some (.bool false, r)
      | _ => none
partial def pEntry : P (GoVal × GoVal) := fun cs =>
  match pValue cs with
  | some (k, '=' :: r) =>
    (match pValue r with
     | some (v, r') => some ((k, v), r')
     | none => none)
  | _ => none
partial def pMapOrNil : P GoMap := fun cs =>
  match cs with
  | '-' :: r => some ([], r)
  | '{' :: r =>
    (match sepBy '}' pEntry (r.length + 2) r with
     | some (kvs, r') => some (collapse kvs, r')
     | none => none)
  | _ => none
/-- after "H(" : rawP ; P ; rawU ; U ) -/
partial def pHdrFields : P (Option Bytes × GoMap × Option Bytes × GoMap) := fun cs =>
  match pOptBytes cs with
  | some (rp, ';' :: r1) =>
    (match pMapOrNil r1 with
     | some (p, ';' :: r2) =>
       (match pOptBytes r2 with
        | some (ru, ';' :: r3) =>
          (match pMapOrNil r3 with
           | some (u, ')' :: r4) => some ((rp, p, ru, u), r4)
           | _ => none)
        | _ => none)
     | _ => none)
  | _ => none
end

def pHdrs : P Hdrs := fun cs =>
  match eatStr "H(" cs with
  | none => none
  | some r =>
    match pHdrFields r with
    | some ((rp, p, ru, u), r') => some ({ rawP := rp, p := p, rawU := ru, u := u }, r')
    | none => none

def pSigV : P SigV := fun cs =>
  match pValue cs with
  | some (v, r) => (match sigOfVal v with | some s => some (s, r) | none => none)
  | none => none

/-- "S1(" HDRS ";" payload ";" sig ")" -/
def pSign1 : P Sign1Msg := fun cs =>
  match eatStr "S1(" cs with
  | none => none
  | some r =>
    match pHdrs r with
    | some (h, ';' :: r1) =>
      (match pOptBytes r1 with
       | some (payload, ';' :: r2) =>
         (match pOptBytes r2 with
          | some (sig, ')' :: r3) => some ({ h := h, payload := payload, sig := sig }, r3)
          | _ => none)
       | _ => none)
    | _ => none

/-- "SM(" HDRS ";" payload ";" ( "-" | "[" sigs "]" ) ")" ; the Bool is "Signatures == nil" -/
def pSignMsg : P (SignMsg × Bool) := fun cs =>
  match eatStr "SM(" cs with
  | none => none
  | some r =>
    match pHdrs r with
    | some (h, ';' :: r1) =>
      (match pOptBytes r1 with
       | some (payload, ';' :: r2) =>
         (match r2 with
          | '-' :: ')' :: r3 => some (({ h := h, payload := payload, sigs := [] }, true), r3)
          | '[' :: r3 =>
            (match sepBy ']' pSigV (r3.length + 2) r3 with
             | some (sigs, ')' :: r4) => some (({ h := h, payload := payload, sigs := sigs }, false), r4)
             | _ => none)
          | _ => none)
       | _ => none)
    | _ => none

/-- "K(" kty ";" id ";" alg ";" ops ";" baseiv ";" params ")" -/
def pKey : P Key := fun cs =>
  match eatStr "K(" cs with
  | none => none
  | some r =>
    match pInt r with
    | some (kty, ';' :: r1) =>
      (match pOptBytes r1 with
       | some (id, ';' :: r2) =>
         (match pInt r2 with
          | some (alg, ';' :: r3) =>
            let ops : Option (Option (List Int) × List Char) := match r3 with
              | '-' :: r4 => some (none, r4)
              | '[' :: r4 => (match sepBy ']' pInt (r4.length + 2) r4 with
                  | some (l, r5) => some (some l, r5)
                  | none => none)
              | _ => none
            (match ops with
             | some (ops, ';' :: r5) =>
               (match pOptBytes r5 with
                | some (biv, ';' :: r6) =>
                  (match pMapOrNil r6 with
                   | some (params, ')' :: r7) =>
                     some ({ kty := kty, id := id, alg := alg, ops := ops, baseIV := biv, params := params }, r7)
                   | _ => none)
                | _ => none)
             | _ => none)
          | _ => none)
       | _ => none)
    | _ => none

def parseAll (p : P α) (s : String) : Option α :=
  match p s.toList with
  | some (a, []) => some a
  | _ => none

end CoseModel
