/-
  CoseModel.Cbor — CBOR syntax: wire trees (with the sender's encoder choices), their bytes,
  and the well-formedness parser mirroring fxamacker/cbor v2.5.0 `valid.go` under the two
  decode modes go-cose configures (cbor.go:39-54): indefinite lengths forbidden, nesting
  ≤ 32, ≤ 131072 array elements / map pairs, tags allowed (`decMode`) or forbidden
  (`decModeWithTagsForbidden`).
-/
import CoseModel.Basic
namespace CoseModel

/-- Width of a CBOR head: immediate (ai < 24) or 1/2/4/8 following bytes. -/
inductive HW | imm | w1 | w2 | w4 | w8
  deriving DecidableEq, Repr, Inhabited

def HW.ai : HW → Nat
  | .imm => 0 | .w1 => 24 | .w2 => 25 | .w4 => 26 | .w8 => 27

/-- the argument fits the width -/
def HW.fits : HW → Nat → Bool
  | .imm, n => n < 24
  | .w1, n => n < 256
  | .w2, n => n < 65536
  | .w4, n => n < 4294967296
  | .w8, n => n < 18446744073709551616

/-- shortest width for an argument -/
def HW.shortest (n : Nat) : HW :=
  if n < 24 then .imm else if n < 256 then .w1 else if n < 65536 then .w2
  else if n < 4294967296 then .w4 else .w8

/-- The bytes of a head with major type `m` (0..7), width `w`, argument `n`. -/
def headBytes (m : Nat) (w : HW) (n : Nat) : Bytes :=
  match w with
  | .imm => [UInt8.ofNat (m * 32 + n)]
  | .w1 => [UInt8.ofNat (m * 32 + 24), UInt8.ofNat n]
  | .w2 => [UInt8.ofNat (m * 32 + 25), UInt8.ofNat (n / 256), UInt8.ofNat (n % 256)]
  | .w4 => [UInt8.ofNat (m * 32 + 26), UInt8.ofNat (n / 16777216), UInt8.ofNat (n / 65536 % 256),
            UInt8.ofNat (n / 256 % 256), UInt8.ofNat (n % 256)]
  | .w8 => [UInt8.ofNat (m * 32 + 27),
            UInt8.ofNat (n / 72057594037927936), UInt8.ofNat (n / 281474976710656 % 256),
            UInt8.ofNat (n / 1099511627776 % 256), UInt8.ofNat (n / 4294967296 % 256),
            UInt8.ofNat (n / 16777216 % 256), UInt8.ofNat (n / 65536 % 256),
            UInt8.ofNat (n / 256 % 256), UInt8.ofNat (n % 256)]

/-- Decoded head: major type, width, argument, remaining bytes.  `none` for truncated input
    and for ai = 28..31 (reserved / indefinite / break: all refused in both modes). -/
def parseHead : Bytes → Option (Nat × HW × Nat × Bytes)
  | [] => none
  | b :: rest =>
    let m := b.toNat / 32
    let ai := b.toNat % 32
    if ai < 24 then some (m, .imm, ai, rest)
    else if ai = 24 then
      match rest with
      | b1 :: r => some (m, .w1, b1.toNat, r)
      | _ => none
    else if ai = 25 then
      match rest with
      | b1 :: b2 :: r => some (m, .w2, b1.toNat * 256 + b2.toNat, r)
      | _ => none
    else if ai = 26 then
      match rest with
      | b1 :: b2 :: b3 :: b4 :: r =>
        some (m, .w4, b1.toNat * 16777216 + b2.toNat * 65536 + b3.toNat * 256 + b4.toNat, r)
      | _ => none
    else if ai = 27 then
      match rest with
      | b1 :: b2 :: b3 :: b4 :: b5 :: b6 :: b7 :: b8 :: r =>
        some (m, .w8, b1.toNat * 72057594037927936 + b2.toNat * 281474976710656
                    + b3.toNat * 1099511627776 + b4.toNat * 4294967296
                    + b5.toNat * 16777216 + b6.toNat * 65536 + b7.toNat * 256 + b8.toNat, r)
      | _ => none
    else none

/-- A CBOR data item as sent: every node carries the head width the sender chose; map
    entries are in wire order.  `nint w n` denotes the integer `-1 - n`.  `prim` is major
    type 7: width `imm` = simple value 0..23 (20 false, 21 true, 22 null, 23 undefined),
    `w1` = simple value 32..255, `w2`/`w4`/`w8` = float of that many bytes (argument = bits). -/
inductive Wire
  | uint (w : HW) (n : Nat)
  | nint (w : HW) (n : Nat)
  | bstr (w : HW) (b : Bytes)
  | tstr (w : HW) (b : Bytes)
  | arr (w : HW) (xs : List Wire)
  | map (w : HW) (kvs : List (Wire × Wire))
  | tag (w : HW) (t : Nat) (x : Wire)
  | prim (w : HW) (n : Nat)
  deriving Repr, Inhabited

mutual
def Wire.bytes : Wire → Bytes
  | .uint w n => headBytes 0 w n
  | .nint w n => headBytes 1 w n
  | .bstr w b => headBytes 2 w b.length ++ b
  | .tstr w b => headBytes 3 w b.length ++ b
  | .arr w xs => headBytes 4 w xs.length ++ Wire.bytesList xs
  | .map w kvs => headBytes 5 w kvs.length ++ Wire.bytesPairs kvs
  | .tag w t x => headBytes 6 w t ++ x.bytes
  | .prim w n => headBytes 7 w n
def Wire.bytesList : List Wire → Bytes
  | [] => []
  | x :: xs => x.bytes ++ Wire.bytesList xs
def Wire.bytesPairs : List (Wire × Wire) → Bytes
  | [] => []
  | (k, v) :: r => k.bytes ++ (v.bytes ++ Wire.bytesPairs r)
end

def maxNested : Nat := 32
def maxElems : Nat := 131072

def isTagByte : Bytes → Bool
  | b :: _ => b.toNat / 32 = 6
  | [] => false

/-
  The parser.  `tagsOk` selects the decode mode.  `depth` is the nesting depth so far
  (arrays and maps increment it; of a chain of tags every tag but the first increments it —
  valid.go:173-190).  Structural recursion on `fuel`; `parseTop` supplies enough.
-/
mutual
def parseItem (tagsOk : Bool) : Nat → Nat → Bytes → Option (Wire × Bytes)
  | 0, _, _ => none
  | fuel + 1, depth, bs =>
    match parseHead bs with
    | none => none
    | some (m, w, n, rest) =>
      if m = 0 then some (.uint w n, rest)
      else if m = 1 then some (.nint w n, rest)
      else if m = 2 then
        if n ≤ rest.length then some (.bstr w (rest.take n), rest.drop n) else none
      else if m = 3 then
        if n ≤ rest.length then some (.tstr w (rest.take n), rest.drop n) else none
      else if m = 4 then
        if depth + 1 > maxNested then none
        else if n > maxElems then none
        else match parseItems tagsOk fuel (depth + 1) n rest with
          | some (xs, r) => some (.arr w xs, r)
          | none => none
      else if m = 5 then
        if depth + 1 > maxNested then none
        else if n > maxElems then none
        else match parsePairs tagsOk fuel (depth + 1) n rest with
          | some (kvs, r) => some (.map w kvs, r)
          | none => none
      else if m = 6 then
        if !tagsOk then none
        else
          let d' := if isTagByte rest then depth + 1 else depth
          if d' > maxNested then none
          else match parseItem tagsOk fuel d' rest with
            | some (x, r) => some (.tag w n x, r)
            | none => none
      else
        -- major type 7
        match w with
        | .imm => some (.prim .imm n, rest)
        | .w1 => if n < 32 then none else some (.prim .w1 n, rest)
        | w => some (.prim w n, rest)
def parseItems (tagsOk : Bool) : Nat → Nat → Nat → Bytes → Option (List Wire × Bytes)
  | 0, _, _, _ => none
  | _ + 1, _, 0, bs => some ([], bs)
  | fuel + 1, depth, k + 1, bs =>
    match parseItem tagsOk fuel depth bs with
    | none => none
    | some (x, r) =>
      match parseItems tagsOk fuel depth k r with
      | none => none
      | some (xs, r') => some (x :: xs, r')
def parsePairs (tagsOk : Bool) : Nat → Nat → Nat → Bytes → Option (List (Wire × Wire) × Bytes)
  | 0, _, _, _ => none
  | _ + 1, _, 0, bs => some ([], bs)
  | fuel + 1, depth, k + 1, bs =>
    match parseItem tagsOk fuel depth bs with
    | none => none
    | some (key, r) =>
      match parseItem tagsOk fuel depth r with
      | none => none
      | some (v, r') =>
        match parsePairs tagsOk fuel depth k r' with
        | none => none
        | some (kvs, r'') => some ((key, v) :: kvs, r'')
end

/-- fuel that is always sufficient for an input of this length -/
def fuelFor (bs : Bytes) : Nat := 2 * bs.length + 2

/-- `Unmarshal`'s well-formedness gate: exactly one item, nothing after it. -/
def parseTop (tagsOk : Bool) (bs : Bytes) : Option Wire :=
  match parseItem tagsOk (fuelFor bs) 0 bs with
  | some (w, []) => some w
  | _ => none

/-- `decModeWithTagsForbidden.Wellformed(bs) == nil`: exactly one item, nothing after it,
    no tag anywhere, nesting and element counts within the decoder's limits. -/
def wellformedNoTags (bs : Bytes) : Bool := (parseTop false bs).isSome

/-- well-formedness of the first item only (the rest is returned) -/
def parseFirst (tagsOk : Bool) (bs : Bytes) : Option (Wire × Bytes) :=
  parseItem tagsOk (fuelFor bs) 0 bs

/-! ### accessors -/

def Wire.major : Wire → Nat
  | .uint .. => 0 | .nint .. => 1 | .bstr .. => 2 | .tstr .. => 3
  | .arr .. => 4 | .map .. => 5 | .tag .. => 6 | .prim .. => 7

def Wire.isNull : Wire → Bool
  | .prim .imm 22 => true
  | _ => false

def Wire.isNullOrUndef : Wire → Bool
  | .prim .imm 22 => true
  | .prim .imm 23 => true
  | _ => false

mutual
def Wire.hasTag : Wire → Bool
  | .tag .. => true
  | .arr _ xs => Wire.hasTagList xs
  | .map _ kvs => Wire.hasTagPairs kvs
  | _ => false
def Wire.hasTagList : List Wire → Bool
  | [] => false
  | x :: xs => x.hasTag || Wire.hasTagList xs
def Wire.hasTagPairs : List (Wire × Wire) → Bool
  | [] => false
  | (k, v) :: r => k.hasTag || v.hasTag || Wire.hasTagPairs r
end

end CoseModel
