/-
  CoseModel.TagScan — the scan for the self-described CBOR tag (55799) at the end of headers.go:
  `headArgument`, `scanSelfDescribedTag`, `typeCheckedHeaderLabel`, `ensureUntaggedHeaderLabels`,
  statement by statement.

  The Go functions are positional (`data []byte, off int`) and total: on input that is not a
  well-formed definite-length item they answer `len(data), false` (the callers only pass
  well-formed items; the behaviour on anything else is kept all the same).  The transcription
  works on an `Array UInt8` (constant-time `data[off]` and `len(data)`, as in Go); the functions
  over `Bytes` convert once and are what the rest of the model calls.

  Conventions, as elsewhere in the model: `b >> 5` is `b.toNat / 32`, `b & 0x1f` is
  `b.toNat % 32`; a `uint64` is a `Nat` below `2^64` (the one place where Go's arithmetic can
  wrap, `n *= 2`, is reduced explicitly); `int` offsets are `Nat` (they never exceed `len(data)`).
  Every `data[i]` below is guarded by `i < len(data)` exactly where Go would otherwise panic.
-/
import CoseModel.Cbor
namespace CoseModel

/-- `data[i]` as a number (callers guard `i < len(data)`) -/
@[inline] def byteAt (data : Array UInt8) (i : Nat) : Nat := (data.getD i 0).toNat

/-- the loop `for _, b := range data[next : next+w] { n = n<<8 | uint64(b) }` (headers.go:883) -/
def beArgument (data : Array UInt8) : Nat → Nat → Nat → Nat
  | 0, _, n => n
  | w + 1, next, n => beArgument data w (next + 1) (n <<< 8 ||| byteAt data next)

/-- `headArgument(data, off)` (headers.go:869): the argument of the head at `data[off:]` and the
    offset just past the head; `0, len(data)` when there is no complete definite head there. -/
def headArgumentA (data : Array UInt8) (off : Nat) : Nat × Nat :=
  if off ≥ data.size then (0, data.size) else
  let ai := byteAt data off % 32
  let next := off + 1
  if ai < 24 then (ai, next)
  else if ai ≤ 27 then
    let w := 1 <<< (ai - 24)
    if next + w > data.size then (0, data.size)
    else (beArgument data w next 0, next + w)
  else (0, data.size)

/-- the loop `for ; n > 0 && next < len(data); n-- { next, f = scan(data, next); found = found || f }`
    (headers.go:909), `step` being `scanSelfDescribedTag(data, ·)` -/
def scanLoop (step : Nat → Nat × Bool) (size : Nat) : Nat → Nat → Bool → Nat × Bool
  | 0, next, found => (next, found)
  | n + 1, next, found =>
    if next < size then
      let r := step next
      scanLoop step size n r.1 (found || r.2)
    else (next, found)

/-- `scanSelfDescribedTag(data, off)` (headers.go:893) with recursion depth bounded by `fuel`.
    Every nested call starts at least one byte further, and a call at or past `len(data)`
    answers `len(data), false`, which is also the answer without fuel: `fuel = len(data)`
    never runs out. -/
def scanA (data : Array UInt8) : Nat → Nat → Nat × Bool
  | 0, _ => (data.size, false)
  | fuel + 1, off =>
    if off ≥ data.size then (data.size, false) else
    let major := byteAt data off / 32
    let h := headArgumentA data off
    let n := h.1
    let next := h.2
    if major = 2 ∨ major = 3 then          -- byte string, text string
      if n > data.size - next then (data.size, false)
      else (next + n, false)
    else if major = 4 ∨ major = 5 then     -- array, map
      let n := if major = 5 then n * 2 % 18446744073709551616 else n
      scanLoop (scanA data fuel) data.size n next false
    else if major = 6 then                 -- tag
      let r := scanA data fuel next
      (r.1, r.2 || n == 55799)
    else (next, false)

/-- `typeCheckedHeaderLabel` (headers.go:854).  `int64(label)` of a `uint64` at or above `2^63`
    is negative and matches none of the cases. -/
def typeCheckedHeaderLabel (label : Nat) : Bool :=
  label = 1 || label = 2 || label = 3 || label = 4 || label = 5 || label = 6 || label = 7
    || label = 9 || label = 11 || label = 12 || label = 16
    || label = 258 || label = 259 || label = 260

/-- the loop of `ensureUntaggedHeaderLabels` (headers.go:837); `true` = no error -/
def ensureLoop (data : Array UInt8) (checked : Option (Nat → Bool)) : Nat → Nat → Bool
  | 0, _ => true
  | n + 1, off =>
    if off < data.size then
      let isUint := byteAt data off / 32 = 0
      let label := (headArgumentA data off).1
      let k := scanA data data.size off
      if k.2 then false               -- "header label: self-described CBOR tag isn't allowed"
      else
        let v := scanA data data.size k.1
        if v.2 && (match checked with
                   | none => true
                   | some c => decide isUint && c label)
        then false                    -- "header parameter: self-described CBOR tag isn't allowed"
        else ensureLoop data checked n v.1
    else true

/-- `ensureUntaggedHeaderLabels(data, checked)` (headers.go:829); `true` = returns nil -/
def ensureUntaggedA (data : Array UInt8) (checked : Option (Nat → Bool)) : Bool :=
  if data.size = 0 ∨ byteAt data 0 / 32 ≠ 5 then
    !(scanA data data.size 0).2
  else
    let h := headArgumentA data 0
    ensureLoop data checked h.1 h.2

/-! ### the same over `Bytes` -/

def headArgument (data : Bytes) (off : Nat) : Nat × Nat := headArgumentA data.toArray off

def scanSelfDescribedTag (data : Bytes) (off : Nat) : Nat × Bool :=
  scanA data.toArray data.length off

def ensureUntaggedHeaderLabels (data : Bytes) (checked : Option (Nat → Bool)) : Bool :=
  ensureUntaggedA data.toArray checked

/-- what `validateHeaderLabelCBOR` adds after its decode: the scan with the header table -/
def headerLabelsUntagged (data : Bytes) : Bool :=
  ensureUntaggedHeaderLabels data (some typeCheckedHeaderLabel)

/-! ### the structural counterpart on wire trees -/

mutual
/-- tag 55799 occurs somewhere in the item -/
def Wire.hasSelfDescribed : Wire → Bool
  | .tag _ t x => x.hasSelfDescribed || t == 55799
  | .arr _ xs => Wire.hasSelfDescribedList xs
  | .map _ kvs => Wire.hasSelfDescribedPairs kvs
  | _ => false
def Wire.hasSelfDescribedList : List Wire → Bool
  | [] => false
  | x :: xs => x.hasSelfDescribed || Wire.hasSelfDescribedList xs
def Wire.hasSelfDescribedPairs : List (Wire × Wire) → Bool
  | [] => false
  | (k, v) :: r => k.hasSelfDescribed || v.hasSelfDescribed || Wire.hasSelfDescribedPairs r
end

/-- what the decoder hands to a map key's `UnmarshalCBOR` (fxamacker decode.go:804, "Strip
    self-described CBOR tag number"): the item under any leading 55799 tags -/
def Wire.stripSelfDescribed : Wire → Wire
  | .tag w t x => if t = 55799 then x.stripSelfDescribed else .tag w t x
  | w => w

/-- the label is a non-negative integer for which `checked` answers true (every label when
    `checked` is nil) -/
def Wire.labelChecked (checked : Option (Nat → Bool)) : Wire → Bool
  | .uint _ n => match checked with | none => true | some c => c n
  | _ => checked.isNone

/-- no pair has tag 55799 in its label, nor in the value of a checked label -/
def Wire.pairsUntagged (checked : Option (Nat → Bool)) : List (Wire × Wire) → Bool
  | [] => true
  | (k, v) :: r =>
    !k.hasSelfDescribed && !(v.hasSelfDescribed && k.labelChecked checked)
      && Wire.pairsUntagged checked r

end CoseModel
