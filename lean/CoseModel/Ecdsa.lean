/-
  CoseModel.Ecdsa — ecdsa.go: I2OSP / OS2IP and the fixed-width r‖s signature codec, over the
  parts of `math/big` they use (`Sign`, `BitLen`, `FillBytes`, `SetBytes`, `Bytes`).
  A `*big.Int` is an `Int`; byte slices are lists.
-/
import CoseModel.Basic
namespace CoseModel

/-- `new(big.Int).SetBytes(b)`: big-endian unsigned value -/
def os2ip (b : Bytes) : Nat := b.foldl (fun acc x => acc * 256 + x.toNat) 0

/-- `x.FillBytes(buf)` for `len(buf) = len` when `x` fits: big-endian, zero-extended on the left -/
def fillBytes : Nat → Nat → Bytes
  | 0, _ => []
  | len + 1, x => fillBytes len (x / 256) ++ [UInt8.ofNat (x % 256)]

/-- `x.Bytes()`: minimal-length big-endian digits (empty for 0) -/
def natBytes (x : Nat) : Bytes :=
  if _h : x = 0 then [] else natBytes (x / 256) ++ [UInt8.ofNat (x % 256)]
decreasing_by omega

/-- `x.BitLen()` for x ≥ 0 -/
def bitLen (x : Nat) : Nat := if x = 0 then 0 else Nat.log2 x + 1

/-- `I2OSP(x, buf)` (ecdsa.go:17) with `len(buf) = len`: error for negative or too-large
    integers, else the filled buffer. -/
def i2osp (x : Int) (len : Nat) : Option Bytes :=
  if x < 0 then none
  else if bitLen x.toNat > len * 8 then none
  else some (fillBytes len x.toNat)

/-- `encodeECDSASignature(curve, r, s)` with `n = (curve.Params().N.BitLen()+7)/8` -/
def encodeECDSASignature (n : Nat) (r s : Int) : Option Bytes :=
  match i2osp r n, i2osp s n with
  | some a, some b => some (a ++ b)
  | _, _ => none

/-- `decodeECDSASignature(curve, sig)` -/
def decodeECDSASignature (n : Nat) (sig : Bytes) : Option (Nat × Nat) :=
  if sig.length ≠ n * 2 then none
  else some (os2ip (sig.take n), os2ip (sig.drop n))

/-- byte size of the group order, per curve bit size (`(N.BitLen()+7)/8`) -/
def orderSize (bits : Nat) : Nat := (bits + 7) / 8

/-- left-pad to `size` as `Key.MarshalCBOR` does for EC2 x / y (key.go:569-578) -/
def leftPad (size : Nat) (x : Bytes) : Bytes :=
  if 0 < x.length ∧ x.length < size then List.replicate (size - x.length) 0 ++ x else x

end CoseModel
