/-
  CoseModel.Signers — ecdsa.go, rsa.go, ed25519.go: the built-in `Signer` / `Verifier` objects as
  thin wrappers around the cryptographic primitives.  The primitives (hash function, ECDSA over a
  digest, RSASSA-PSS over a digest, Ed25519 over a message) are PARAMETERS: the theorems about
  these wrappers hold for every behaviour of the primitive, including faulty ones.

  Each definition transcribes one Go function statement by statement; the statement lists of
  those functions are regenerated from /repo on every run (`Facts.body_*`) and compared with the
  reviewed baseline in `CoseProofs/SignersTie.lean`.
-/
import CoseModel.Ecdsa
import CoseModel.Messages
namespace CoseModel

/-- `Algorithm.computeHash`: error when the hash function is not linked in, else the digest -/
abbrev HashFn := Bytes → Out Bytes

/-- an ECDSA key as the wrappers see it.
    `n`      — `(curve.Params().N.BitLen()+7)/8`;
    `sign`   — `ecdsa.Sign(rand, key, digest)` for a `*ecdsa.PrivateKey`, or the (R, S) of the
               ASN.1 blob returned by an opaque `crypto.Signer` (any two integers: a faulty HSM may
               hand back anything; an ASN.1 parse error is an `.err`);
    `verify` — `ecdsa.Verify(key, digest, r, s)`. -/
structure EcdsaKey where
  n : Nat
  sign : Bytes → Out (Int × Int)
  verify : Bytes → Nat → Nat → Bool

/-- `checkECDSADigest(alg, digest) == nil`.  `hs` is what the ALGORITHM says about its hash:
    `some n` — `alg.hashFunc()` is available and `h.Size() = n`; `none` — not available (Go:
    `h.Available() && len(digest) != h.Size()` is then false, no check). -/
def checkECDSADigest (hs : Option Nat) (digest : Bytes) : Bool :=
  match hs with
  | some n => digest.length == n
  | none => true

/-- `ecdsaKeySigner.SignDigest` / `ecdsaCryptoSigner.SignDigest`: the digest must be of the
    algorithm's hash, checked before the key is touched -/
def ecdsaSignDigest (hs : Option Nat) (k : EcdsaKey) (digest : Bytes) : Out Bytes :=
  if checkECDSADigest hs digest = false then .err .other else
  match k.sign digest with
  | .ok (r, s) =>
    (match encodeECDSASignature k.n r s with
     | some sig => .ok sig
     | none => .err .other)
  | .err e => .err e
  | .panic => .panic
  | .unmodelled => .unmodelled

/-- `ecdsaKeySigner.Sign` / `ecdsaCryptoSigner.Sign` -/
def ecdsaSign (H : HashFn) (hs : Option Nat) (k : EcdsaKey) (content : Bytes) : Out Bytes :=
  match H content with
  | .ok digest => ecdsaSignDigest hs k digest
  | .err e => .err e
  | .panic => .panic
  | .unmodelled => .unmodelled

/-- `ecdsaVerifier.VerifyDigest`: a digest that is not of the algorithm's hash is
    `ErrVerification` before the signature is decoded -/
def ecdsaVerifyDigest (hs : Option Nat) (k : EcdsaKey) (digest sig : Bytes) : Out Unit :=
  if checkECDSADigest hs digest = false then .err .verification else
  match decodeECDSASignature k.n sig with
  | none => .err .verification
  | some (r, s) => if k.verify digest r s then .ok () else .err .verification

/-- `ecdsaVerifier.Verify` -/
def ecdsaVerify (H : HashFn) (hs : Option Nat) (k : EcdsaKey) (content sig : Bytes) : Out Unit :=
  match H content with
  | .ok digest => ecdsaVerifyDigest hs k digest sig
  | .err e => .err e
  | .panic => .panic
  | .unmodelled => .unmodelled

def ecdsaSigner (alg : Int) (H : HashFn) (hs : Option Nat) (k : EcdsaKey) : Signer :=
  { alg := alg, sign := ecdsaSign H hs k }
def ecdsaVerifier (alg : Int) (H : HashFn) (hs : Option Nat) (k : EcdsaKey) : Verifier :=
  { alg := alg, verify := ecdsaVerify H hs k }

/-- an RSA key: `sign` is `key.Sign(rand, digest, &rsa.PSSOptions{SaltLength: hash size, Hash: h})`
    (whatever a `crypto.Signer` does), `verify` is `rsa.VerifyPSS(...) == nil` -/
structure RsaKey where
  sign : Bytes → Out Bytes
  verify : Bytes → Bytes → Bool

/-- `rsaSigner.SignDigest` -/
def rsaSignDigest (k : RsaKey) (digest : Bytes) : Out Bytes := k.sign digest

/-- `rsaSigner.Sign` -/
def rsaSign (H : HashFn) (k : RsaKey) (content : Bytes) : Out Bytes :=
  match H content with
  | .ok digest => rsaSignDigest k digest
  | .err e => .err e
  | .panic => .panic
  | .unmodelled => .unmodelled

/-- `rsaVerifier.VerifyDigest` -/
def rsaVerifyDigest (k : RsaKey) (digest sig : Bytes) : Out Unit :=
  if k.verify digest sig then .ok () else .err .verification

/-- `rsaVerifier.Verify` -/
def rsaVerify (H : HashFn) (k : RsaKey) (content sig : Bytes) : Out Unit :=
  match H content with
  | .ok digest => rsaVerifyDigest k digest sig
  | .err e => .err e
  | .panic => .panic
  | .unmodelled => .unmodelled

def rsaSigner (alg : Int) (H : HashFn) (k : RsaKey) : Signer := { alg := alg, sign := rsaSign H k }
def rsaVerifier (alg : Int) (H : HashFn) (k : RsaKey) : Verifier := { alg := alg, verify := rsaVerify H k }

/-- an Ed25519 key: PureEdDSA over the message itself (`crypto.Hash(0)`) -/
structure EdKey where
  sign : Bytes → Out Bytes
  verify : Bytes → Bytes → Bool

/-- `ed25519Signer.Sign`, `ed25519Verifier.Verify` -/
def edSigner (k : EdKey) : Signer := { alg := -8, sign := k.sign }
def edVerifier (k : EdKey) : Verifier :=
  { alg := -8, verify := fun content sig => if k.verify content sig then .ok () else .err .verification }

end CoseModel
