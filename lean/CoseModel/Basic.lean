/-
  CoseModel.Basic — bytes, hex, outcome type.
  Core Lean only (this library is linked into the `cosemodel` executable).
-/
namespace CoseModel

abbrev Bytes := List UInt8

/-- Outcome of a modelled Go call.  `panic` is an explicit outcome so that the C06 theorems
    can state it is unreachable; `unmodelled` marks inputs whose library semantics the model
    does not mirror (DESIGN.md §3) — the correspondence skips and counts them. -/
inductive Err
  | other | algMismatch | algNotFound | emptySig | missingPayload | noSignatures
  | verification | invalidAlg | algNotSupported | signer | verifier
  | invalidKey | invalidPub | invalidPriv | notPriv | opNotSupported | ec2NoPub | okpNoPub
  deriving DecidableEq, Repr, Inhabited

def Err.name : Err → String
  | .other => "other" | .algMismatch => "algMismatch" | .algNotFound => "algNotFound"
  | .emptySig => "emptySig" | .missingPayload => "missingPayload"
  | .noSignatures => "noSignatures" | .verification => "verification"
  | .invalidAlg => "invalidAlg" | .algNotSupported => "algNotSupported"
  | .signer => "signer" | .verifier => "verifier"
  | .invalidKey => "invalidKey" | .invalidPub => "invalidPub" | .invalidPriv => "invalidPriv"
  | .notPriv => "notPriv" | .opNotSupported => "opNotSupported" | .ec2NoPub => "ec2NoPub"
  | .okpNoPub => "okpNoPub"

inductive Out (α : Type) where
  | ok (a : α)
  | err (e : Err)
  | panic
  | unmodelled
  deriving Repr, DecidableEq

@[inline] def Out.bind (x : Out α) (f : α → Out β) : Out β :=
  match x with
  | .ok a => f a
  | .err e => .err e
  | .panic => .panic
  | .unmodelled => .unmodelled

instance : Monad Out where
  pure := .ok
  bind := Out.bind

@[simp] theorem Out.bind_ok (a : α) (f : α → Out β) : (Out.ok a >>= f) = f a := rfl
@[simp] theorem Out.bind_err (e : Err) (f : α → Out β) : (Out.err e >>= f) = .err e := rfl
@[simp] theorem Out.bind_panic (f : α → Out β) : ((Out.panic : Out α) >>= f) = .panic := rfl
@[simp] theorem Out.bind_unmodelled (f : α → Out β) : ((Out.unmodelled : Out α) >>= f) = .unmodelled := rfl
@[simp] theorem Out.pure_eq (a : α) : (pure a : Out α) = .ok a := rfl

def Out.isOk : Out α → Bool
  | .ok _ => true
  | _ => false

def Out.ofOption (e : Err) : Option α → Out α
  | some a => .ok a
  | none => .err e

/-! ### hex -/

def hexDigit (n : Nat) : Char :=
  if n < 10 then Char.ofNat (48 + n) else Char.ofNat (87 + n)

def hexOfBytes (b : Bytes) : String :=
  String.ofList (b.foldr (fun x acc => hexDigit (x.toNat / 16) :: hexDigit (x.toNat % 16) :: acc) [])

def hexVal (c : Char) : Option Nat :=
  if '0' ≤ c ∧ c ≤ '9' then some (c.toNat - 48)
  else if 'a' ≤ c ∧ c ≤ 'f' then some (c.toNat - 87)
  else if 'A' ≤ c ∧ c ≤ 'F' then some (c.toNat - 55)
  else none

def bytesOfHexChars : List Char → Option Bytes
  | [] => some []
  | a :: b :: rest => do
      let x ← hexVal a
      let y ← hexVal b
      let r ← bytesOfHexChars rest
      pure (UInt8.ofNat (x * 16 + y) :: r)
  | [_] => none

def bytesOfHex (s : String) : Option Bytes := bytesOfHexChars s.toList

/-- Lexicographic comparison of byte strings (`bytes.Compare a b < 0`). -/
def bytesLt : Bytes → Bytes → Bool
  | [], [] => false
  | [], _ :: _ => true
  | _ :: _, [] => false
  | a :: as, b :: bs => if a < b then true else if b < a then false else bytesLt as bs

/-- `bytes.Compare a b ≤ 0`. -/
def bytesLe (a b : Bytes) : Bool := !bytesLt b a

end CoseModel
