/-
  CoseModel.Driver — one operation line in, one canonical output line out: the model side of
  the correspondence check.  Mirrors harness/cmd/cosedrive/ops*.go field for field.
-/
import CoseModel.Notation
import CoseModel.Signers
namespace CoseModel

/-- `none` = the operation touches a construct outside the modelled region -/
abbrev M := Option

def clsU : Out Unit → M String
  | .ok _ => some "ok"
  | .err e => some ("err " ++ e.name)
  | .panic => some "panic"
  | .unmodelled => none

def plain : Out α → M String
  | .ok _ => some "ok"
  | .err _ => some "err"
  | .panic => some "panic"
  | .unmodelled => none

def unhexArg (s : String) : Option (Option Bytes) :=
  if s = "-" then some none
  else if s = "_" then some (some [])
  else (bytesOfHex s).map some

/-! ### signers / verifiers of the harness -/

def splitOnChar (c : Char) (s : String) : List String :=
  s.splitOn (String.singleton c)

def parseIntStr (s : String) : Option Int :=
  match pInt s.toList with
  | some (n, []) => some n
  | _ => none

def parseSigned' (s : String) : Option Int :=
  if s.startsWith "-" then
    (unhexArg (s.drop 1).toString).bind fun o => o.map fun b => -(os2ip b : Int)
  else (unhexArg s).bind fun o => o.map fun b => (os2ip b : Int)

def curveBits' : String → Nat
  | "p256" => 256 | "p384" => 384 | "p521" => 521 | "p224" => 224 | _ => 0

def mkSigner (spec : String) : Option Signer :=
  match splitOnChar ':' spec with
  | ["E", cn, rs, ss] =>
    (match parseSigned' rs, parseSigned' ss with
     | some r, some s =>
       let alg : Int := if cn = "p256" then -7 else if cn = "p384" then -35 else -36
       -- the library's own ECDSA signer (CoseModel/Signers.lean) over an opaque key that answers (r, s)
       -- identity "hash", so no digest-size check (`none`: the hash is not a real one)
       some (ecdsaSigner alg (fun c => .ok c) none
         { n := orderSize (curveBits' cn), sign := fun _ => .ok (r, s), verify := fun _ _ _ => false })
     | _, _ => none)
  | [kind, a, arg] =>
    (match parseIntStr a with
     | none => none
     | some alg =>
       if kind = "T" || kind = "R" then
         (match arg.toNat? with
          | some k => some { alg := alg, sign := fun tbs => .ok (1 :: UInt8.ofNat k :: tbs) }
          | none => none)
       else if arg = "err" || arg = "errb" then some { alg := alg, sign := fun _ => .err .signer }
       else if arg = "empty" then some { alg := alg, sign := fun _ => .ok [] }
       else none)
  | _ => none

def mkVerifier (spec : String) : Option Verifier :=
  match splitOnChar ':' spec with
  | [kind, a, arg] =>
    (match parseIntStr a with
     | none => none
     | some alg =>
       if kind = "T" || kind = "R" then
         (match arg.toNat? with
          | some k => some { alg := alg, verify := fun tbs sig =>
              if sig = 1 :: UInt8.ofNat k :: tbs then .ok () else .err .verification }
          | none => none)
       else if arg = "err" then some { alg := alg, verify := fun _ _ => .err .verifier }
       else if arg = "ok" then some { alg := alg, verify := fun _ _ => .ok () }
       else none)
  | _ => none

def listArg (s : String) : List String :=
  let inner := (s.drop 1).dropEnd 1 |>.toString
  if inner.isEmpty then [] else splitOnChar ',' inner

def mapM' (f : α → Option β) : List α → Option (List β)
  | [] => some []
  | a :: r => match f a, mapM' f r with
    | some b, some bs => some (b :: bs)
    | _, _ => none

/-! ### dec / enc / reenc -/

def opDec (kind : String) (data : Bytes) : M String :=
  let fin {α} (o : Out α) (d : α → String) : M String :=
    match o with
    | .ok a => some ("ok " ++ d a)
    | .err _ => some "err"
    | .panic => some "panic"
    | .unmodelled => none
  match kind with
  | "s1" => fin (Sign1.unmarshal true data) Sign1Msg.dump
  | "s1u" => fin (Sign1.unmarshal false data) Sign1Msg.dump
  | "sm" => fin (Sign.unmarshal data) (fun m => m.dump)
  | "sig" => fin (Signature.unmarshal data) SigV.dump
  | "csig" => fin (Signature.unmarshal data) SigV.dump
  | "ph" => fin (Protected.unmarshal data) dumpMap
  | "uh" => fin (Unprotected.unmarshal data) dumpMap
  | "key" => fin (Key.unmarshal data) Key.dump
  | _ => some "bad-op"

def marshalKind (kind spec : String) : Option (Out Bytes) :=
  match kind with
  | "s1" => (parseAll pSign1 spec).map (Sign1.marshal true)
  | "s1u" => (parseAll pSign1 spec).map (Sign1.marshal false)
  | "sm" => (parseAll pSignMsg spec).map (fun m => Sign.marshal m.1)
  | "sig" => (parseAll pSigV spec).map Signature.marshal
  | "csig" => (parseAll pSigV spec).map Signature.marshal
  | "ph" => (parseAll pMapOrNil spec).map (fun m => marshalProtected { p := m })
  | "uh" => (parseAll pMapOrNil spec).map (fun m => marshalUnprotected { u := m })
  | "key" => (parseAll pKey spec).map Key.marshal
  | _ => none

def firstWord (s : String) : String := (s.splitOn " ").headD ""

/-- a COSE_Sign value with an unset (nil) signature slot, `csn` in the notation: every method of
    `*Signature` starts with a nil-receiver test and returns an error, so `SignMessage.MarshalCBOR`
    fails (sign.go:67, 322-326).  The model's `SigV` has no nil inhabitant; the case is answered here. -/
def hasNilSlot (kind spec : String) : Bool :=
  kind = "sm" && ((spec.splitOn "[csn").length > 1 || (spec.splitOn ",csn").length > 1)

def opEnc (kind spec : String) : M String :=
  if hasNilSlot kind spec then some "err" else
  match marshalKind kind spec with
  | none => some "bad-op"
  | some (.ok b) =>
    (match opDec kind b with
     | some d => some ("ok " ++ hexOfBytes b ++ " redec=" ++ firstWord d)
     | none => none)
  | some (.err _) => some "err"
  | some .panic => some "panic"
  | some .unmodelled => none

mutual
def clearRawVal (r : Option Bytes) : GoVal → GoVal
  | .csig _ p _ u sig => .csig r p r (clearRawPairs r u) sig
  | .csigs cs => .csigs (clearRawList r cs)
  | v => v
def clearRawList (r : Option Bytes) : List GoVal → List GoVal
  | [] => []
  | x :: xs => clearRawVal r x :: clearRawList r xs
def clearRawPairs (r : Option Bytes) : List (GoVal × GoVal) → List (GoVal × GoVal)
  | [] => []
  | (k, v) :: rest => (k, clearRawVal r v) :: clearRawPairs r rest
end

/-- discard the retained raw buckets: `r = none` is `RawX = nil`, `r = some []` is `RawX = RawX[:0]`
    (an application that truncates instead of assigning nil) -/
def Hdrs.clearRawTo (r : Option Bytes) (h : Hdrs) : Hdrs := { rawP := r, p := h.p, rawU := r, u := clearRawPairs r h.u }
def Hdrs.clearRaw (h : Hdrs) : Hdrs := h.clearRawTo none
def SigV.clearRawTo (r : Option Bytes) (s : SigV) : SigV := { s with h := s.h.clearRawTo r }
def SigV.clearRaw (s : SigV) : SigV := s.clearRawTo none

/-- one decode / (clear) / encode cycle -/
def reencOnce (kind : String) (clear : Option (Option Bytes)) (data : Bytes) : Out (Out Bytes) :=
  let ch (h : Hdrs) : Hdrs := match clear with | some r => h.clearRawTo r | none => h
  let cs (s : SigV) : SigV := match clear with | some r => s.clearRawTo r | none => s
  match kind with
  | "s1" => (Sign1.unmarshal true data).bind fun m => .ok (Sign1.marshal true { m with h := ch m.h })
  | "s1u" => (Sign1.unmarshal false data).bind fun m => .ok (Sign1.marshal false { m with h := ch m.h })
  | "sm" => (Sign.unmarshal data).bind fun m =>
      .ok (Sign.marshal { m with h := ch m.h, sigs := m.sigs.map cs })
  | "key" => (Key.unmarshal data).bind fun k => .ok k.marshal
  | _ => (Signature.unmarshal data).bind fun s => .ok (Signature.marshal (cs s))

def opReenc (kind : String) (data : Bytes) (clear : Option (Option Bytes)) : Nat → List String → M String
  | 0, outs => some ("ok " ++ joinWith " " outs.reverse)
  | n + 1, outs =>
    match reencOnce kind clear data with
    | .ok (.ok b) => opReenc kind b clear n (hexOfBytes b :: outs)
    | .ok (.err _) => some (joinWith " " (("encerr" :: outs).reverse))
    | .ok .panic => some "panic"
    | .ok .unmodelled => none
    | .err _ => some (joinWith " " (("decerr" :: outs).reverse))
    | .panic => some "panic"
    | .unmodelled => none

/-! ### Sign1 chains -/

def encField (o : Out Bytes) : M (String × Option Bytes) :=
  match o with
  | .ok b => some (hexOfBytes b, some b)
  | .err e => some ("err " ++ e.name, none)
  | .panic => some ("panic", none)
  | .unmodelled => none

def opS1 (a : List String) : M String :=
  match a with
  | tag :: mspec :: exts :: sspec :: vspec :: det :: _ =>
    (match parseAll pSign1 mspec, unhexArg exts, mkSigner sspec, mkVerifier vspec with
     | some m, some ext, some s, some v => do
        let tagged := tag == "t"
        let r := Sign1.sign m ext s
        let signC ← clsU r.out
        let m1 := r.state
        let (mv, _) := Sign1.verify m1 ext v
        let mverC ← clsU mv
        let m2 := if det == "d" then { m1 with payload := none } else m1
        let (encS, encB) ← encField (Sign1.marshal tagged m2)
        let pre := "sign=" ++ signC ++ " st=" ++ m1.dump ++ " tbs=" ++ hexList r.calls ++ " mver=" ++ mverC
          ++ " enc=" ++ encS
        match encB with
        | none => pure pre
        | some b =>
          match Sign1.unmarshal tagged b with
          | .ok m3 =>
            let m4 := if det == "d" then { m3 with payload := m1.payload } else m3
            let (vr, vcalls) := Sign1.verify m4 ext v
            let vc ← clsU vr
            pure (pre ++ " ver=" ++ vc ++ " vtbs=" ++ hexList vcalls)
          | .err _ => pure (pre ++ " dec=err")
          | .panic => pure (pre ++ " dec=panic")
          | .unmodelled => none
     | _, _, _, _ => some "bad-op")
  | _ => some "bad-op"

def opS1H (a : List String) : M String :=
  match a with
  | tag :: hspec :: pl :: exts :: sspec :: _ =>
    (match parseAll pHdrs hspec, unhexArg pl, unhexArg exts, mkSigner sspec with
     | some h, some payload, some ext, some s =>
       let (o, calls) := sign1Helper (tag == "t") h payload ext s
       (match o with
        | .ok b => some ("res=ok " ++ hexOfBytes b ++ " tbs=" ++ hexList calls)
        | .err e => some ("res=err " ++ e.name ++ " tbs=" ++ hexList calls)
        | .panic => some "panic"
        | .unmodelled => none)
     | _, _, _, _ => some "bad-op")
  | _ => some "bad-op"

def opV1 (a : List String) : M String :=
  match a with
  | tag :: hexs :: exts :: vspec :: pl :: _ =>
    (match unhexArg hexs, unhexArg exts, mkVerifier vspec, unhexArg pl with
     | some (some data), some ext, some v, some plo =>
       (match Sign1.unmarshal (tag == "t") data with
        | .ok m =>
          let m' := match plo with | some p => { m with payload := some p } | none => m
          let (vr, calls) := Sign1.verify m' ext v
          (clsU vr).map fun c => "dec=ok ver=" ++ c ++ " vtbs=" ++ hexList calls
        | .err _ => some "dec=err"
        | .panic => some "panic"
        | .unmodelled => none)
     | _, _, _, _ => some "bad-op")
  | _ => some "bad-op"

/-! ### COSE_Sign chains -/

def opSM (a : List String) : M String :=
  match a with
  | mspec :: exts :: ss :: vs :: det :: _ =>
    (match parseAll pSignMsg mspec, unhexArg exts, mapM' mkSigner (listArg ss), mapM' mkVerifier (listArg vs) with
     | some (m, nilSigs), some ext, some signers, some verifiers => do
        let r := Sign.sign m ext signers
        let signC ← clsU r.out
        let m1 := r.state
        let (mv, _) := Sign.verify m1 ext verifiers
        let mverC ← clsU mv
        let m2 := if det == "d" then { m1 with payload := none } else m1
        let (encS, encB) ← encField (Sign.marshal m2)
        let pre := "sign=" ++ signC ++ " st=" ++ m1.dump (nilSigs && m1.sigs.isEmpty) ++ " tbs=" ++ hexList r.calls
          ++ " mver=" ++ mverC ++ " enc=" ++ encS
        match encB with
        | none => pure pre
        | some b =>
          match Sign.unmarshal b with
          | .ok m3 =>
            let m4 := if det == "d" then { m3 with payload := m1.payload } else m3
            let (vr, vcalls) := Sign.verify m4 ext verifiers
            let vc ← clsU vr
            pure (pre ++ " ver=" ++ vc ++ " vtbs=" ++ hexList vcalls)
          | .err _ => pure (pre ++ " dec=err")
          | .panic => pure (pre ++ " dec=panic")
          | .unmodelled => none
     | _, _, _, _ => some "bad-op")
  | _ => some "bad-op"

def opVM (a : List String) : M String :=
  match a with
  | hexs :: exts :: vs :: pl :: _ =>
    (match unhexArg hexs, unhexArg exts, mapM' mkVerifier (listArg vs), unhexArg pl with
     | some (some data), some ext, some verifiers, some plo =>
       (match Sign.unmarshal data with
        | .ok m =>
          let m' := match plo with | some p => { m with payload := some p } | none => m
          let (vr, calls) := Sign.verify m' ext verifiers
          (clsU vr).map fun c => "dec=ok ver=" ++ c ++ " vtbs=" ++ hexList calls
        | .err _ => some "dec=err"
        | .panic => some "panic"
        | .unmodelled => none)
     | _, _, _, _ => some "bad-op")
  | _ => some "bad-op"

/-! ### countersignatures -/

/-- `none` = harness-level parse problem; `some (err)` = decoding the parent failed -/
def mkParent (kind src : String) : Option (Out Parent) :=
  if kind = "bad" then some (.ok .unsupported) else
  if src.startsWith "hex:" then
    match bytesOfHex (src.drop 4).toString with
    | none => none
    | some data =>
      (match kind with
       | "s1" => some ((Sign1.unmarshal true data).bind fun m => .ok (.sign1 m))
       | "sm" => some ((Sign.unmarshal data).bind fun m => .ok (.sign m))
       | "sig" => some ((Signature.unmarshal data).bind fun s => .ok (.signature s))
       | "csig" => some ((Signature.unmarshal data).bind fun s => .ok (.countersignature s))
       | _ => none)
  else if src.startsWith "val:" then
    let spec := (src.drop 4).toString
    match kind with
    | "s1" => (parseAll pSign1 spec).map fun m => .ok (.sign1 m)
    | "sm" =>
      -- a nil `*Signature` slot (`csn`) is, for a parent, a slot without a signature
      (parseAll pSignMsg (spec.replace "csn" "cs(H(-;{};-;{});-)")).map fun m => .ok (.sign m.1)
    | "sig" => (parseAll pSigV spec).map fun s => .ok (.signature s)
    | "csig" => (parseAll pSigV spec).map fun s => .ok (.countersignature s)
    | _ => none
  else none

def opCS (a : List String) : M String :=
  match a with
  | form :: kind :: _ptr :: src :: chs :: exts :: sspec :: vspec :: _ =>
    (match mkParent kind src, parseAll pHdrs chs, unhexArg exts, mkSigner sspec, mkVerifier vspec with
     | some po, some ch, some ext, some s, some v =>
       (match po with
        | .err _ => some "parent=err"
        | .panic => some "panic"
        | .unmodelled => none
        | .ok parent =>
          if form = "abbr" then do
            let (o, calls) := countersign0 s parent ext
            match o with
            | .ok sig =>
              let (vr, vcalls) := verifyCountersign0 v parent ext sig
              let vc ← clsU vr
              pure ("sign=ok sig=" ++ hexOfBytes sig ++ " tbs=" ++ hexList calls ++ " ver=" ++ vc ++ " vtbs=" ++ hexList vcalls)
            | .err e => pure ("sign=err " ++ e.name ++ " sig=- tbs=" ++ hexList calls)
            | .panic => pure "panic"
            | .unmodelled => none
          else do
            let cs : SigV := { h := ch, sig := none }
            let r := Countersignature.sign cs s parent ext
            let signC ← clsU r.out
            let c1 := r.state
            let (mv, _) := Countersignature.verify c1 v parent ext
            let mverC ← clsU mv
            let (encS, encB) ← encField (Signature.marshal c1)
            let pre := "sign=" ++ signC ++ " st=" ++ c1.dump ++ " tbs=" ++ hexList r.calls ++ " mver=" ++ mverC
              ++ " enc=" ++ encS
            match encB with
            | none => pure pre
            | some b =>
              match Signature.unmarshal b with
              | .ok c2 =>
                let (vr, vcalls) := Countersignature.verify c2 v parent ext
                let vc ← clsU vr
                pure (pre ++ " ver=" ++ vc ++ " vtbs=" ++ hexList vcalls)
              | .err _ => pure (pre ++ " dec=err")
              | .panic => pure (pre ++ " dec=panic")
              | .unmodelled => none)
     | _, _, _, _, _ => some "bad-op")
  | _ => some "bad-op"

/-! ### hash envelopes -/

def opHE (a : List String) : M String :=
  match a with
  | hspec :: algs :: hvs :: pcts :: locs :: sspec :: vspec :: _ =>
    let pct : Option (Option GoVal) := if pcts = "-" then some none else (parseAll pValue pcts).map some
    let loc : Option Bytes := if locs = "-" then some [] else bytesOfHex locs
    (match parseAll pHdrs hspec, parseIntStr algs, unhexArg hvs, pct, loc, mkSigner sspec, mkVerifier vspec with
     | some h, some alg, some hv, some pct, some loc, some s, some v =>
       let (o, calls) := signHashEnvelope s h { alg := alg, value := hv, pct := pct, location := loc }
       (match o with
        | .ok b =>
          let pre := "sign=ok " ++ hexOfBytes b ++ " caller=same tbs=" ++ hexList calls
          (match verifyHashEnvelope v b with
           | (.ok m, _) => some (pre ++ " ver=ok " ++ m.dump)
           | (.err e, _) => some (pre ++ " ver=err " ++ e.name)
           | (.panic, _) => some "panic"
           | (.unmodelled, _) => none)
        | .err e => some ("sign=err " ++ e.name ++ " caller=same")
        | .panic => some "panic"
        | .unmodelled => none)
     | _, _, _, _, _, _, _ => some "bad-op")
  | _ => some "bad-op"

def opHEV (a : List String) : M String :=
  match a with
  | hexs :: vspec :: _ =>
    (match unhexArg hexs, mkVerifier vspec with
     | some (some data), some v =>
       (match verifyHashEnvelope v data with
        | (.ok m, calls) => some ("ver=ok " ++ m.dump ++ " vtbs=" ++ hexList calls)
        | (.err _, _) => some "ver=err"
        | (.panic, _) => some "panic"
        | (.unmodelled, _) => none)
     | _, _ => some "bad-op")
  | _ => some "bad-op"

/-! ### keys -/

def okAlg : Except Err Int → String
  | .ok a => "ok:" ++ intStr a
  | .error _ => "err"

def optErr : Option Err → String
  | none => "ok"
  | some _ => "err"

def opKeyUse (a : List String) : M String :=
  match a with
  | hexs :: _ =>
    (match unhexArg hexs with
     | some (some data) =>
       (match Key.unmarshal data with
        | .ok k =>
          let isEC := k.publicKey.isNone && k.deriveAlgorithm != some (-8)
          let verifier :=
            if isEC then
              (match k.verifier true, k.verifier false with
               | .ok a, .error _ => "OC(ok:" ++ intStr a ++ ")"
               | r, _ => okAlg r)
            else okAlg (k.verifier true)
          let algd := (match k.algorithmOrDefault with | some a => "ok:" ++ intStr a | none => "err") ++
            " acc=" ++ joinWith "/" ([lbl (-1), lbl (-2), lbl (-3), lbl (-4), GoVal.str "ext".toUTF8.toList].map (paramFlags k.params))
          (match k.marshal with
           | .ok enc =>
             let redec := match Key.unmarshal enc with
               | .ok k2 => (match k2.marshal with
                   | .ok enc2 => if enc2 = enc then some "ok" else some "unstable"
                   | .unmodelled => none
                   | _ => some "unstable")
               | .unmodelled => none
               | _ => some "err"
             redec.map fun rd =>
               "dec=ok " ++ k.dump ++ " pub=" ++ optErr k.publicKey ++ " priv=" ++ optErr k.privateKey
                 ++ " signer=" ++ okAlg k.signer ++ " verifier=" ++ verifier ++ " oc=* algd=" ++ algd
                 ++ " reenc=" ++ hexOfBytes enc ++ " redec=" ++ rd
           | .err _ =>
             some ("dec=ok " ++ k.dump ++ " pub=" ++ optErr k.publicKey ++ " priv=" ++ optErr k.privateKey
                 ++ " signer=" ++ okAlg k.signer ++ " verifier=" ++ verifier ++ " oc=* algd=" ++ algd ++ " reenc=err")
           | .panic => some "panic"
           | .unmodelled => none)
        | .err _ => some "dec=err"
        | .panic => some "panic"
        | .unmodelled => none)
     | _ => some "bad-op")
  | _ => some "bad-op"

def withExtras (k : Key) (n : Nat := 1) : Key :=
  let p0 : GoMap := k.params.set (.str "x-extra".toUTF8.toList) (.int .i64 5)
  let p1 : GoMap := (List.range (n - 1)).foldl
    (fun (acc : GoMap) (i : Nat) => acc.set (GoVal.int .i64 (-(100 + (i : Int)))) (GoVal.int .i64 (i : Int))) p0
  { k with id := some [1, 2], ops := some [1, 2], baseIV := some [9], params := p1 }

def curveBits : String → Nat
  | "p256" => 256 | "p384" => 384 | "p521" => 521 | "p224" => 224 | _ => 0

def opKeyRT (a : List String) : M String :=
  match a with
  | cn :: xs :: ys :: ds :: rest =>
    let extrasN : Nat := match rest.head? with
      | some t => if t.startsWith "+" then ((t.drop 1).toString.toNat?.getD 1) else 0
      | none => 0
    let extras := extrasN > 0
    (match unhexArg xs, unhexArg ys, unhexArg ds with
     | some xo, some yo, some dopt =>
       if cn = "ed" then
         let pub := xo.getD []
         (match keyFromEd pub dopt with
          | .ok k0 =>
            let k := if extras then withExtras k0 extrasN else k0
            (match k.marshal with
             | .ok enc =>
               (match Key.unmarshal enc with
                | .ok k2 =>
                  let okPub := k2.publicKey.isNone && k2.pbytes (-2) = pub
                  let okPriv := match dopt with
                    | none => true
                    | some d => k2.privateKey.isNone && k2.pbytes (-4) = d && k2.pbytes (-2) = pub
                  some ("ok " ++ hexOfBytes enc ++
                    (if !okPub then " rt=pubdiff" else if !okPriv then " rt=privdiff" else " rt=eq"))
                | .unmodelled => none
                | _ => some ("ok " ++ hexOfBytes enc ++ " dec=err"))
             | .unmodelled => none
             | _ => some "enc=err")
          | .unmodelled => none
          | _ => some "new=err")
       else
         let x := os2ip (xo.getD []); let y := os2ip (yo.getD [])
         let d := dopt.map os2ip
         (match keyFromEC (curveBits cn) x y d with
          | .ok k0 =>
            let k := if extras then withExtras k0 extrasN else k0
            (match k.marshal with
             | .ok enc =>
               (match Key.unmarshal enc with
                | .ok k2 =>
                  let (x2, y2, d2) := k2.ecCoords
                  let lens := " xlen=" ++ toString (k2.pbytes (-2)).length ++ " ylen=" ++ toString (k2.pbytes (-3)).length
                  let res :=
                    if k2.publicKey.isSome then " rt=puberr"
                    else if x2 ≠ x ∨ y2 ≠ y ∨ k2.deriveAlgorithm ≠ k0.deriveAlgorithm then " rt=pubdiff"
                    else match d with
                      | none => " rt=eq"
                      | some dv =>
                        if k2.privateKey.isSome then " rt=priverr"
                        else if d2 ≠ dv then " rt=privdiff" else " rt=eq"
                  some ("ok " ++ hexOfBytes enc ++ lens ++ res)
                | .unmodelled => none
                | _ => some ("ok " ++ hexOfBytes enc ++ " dec=err"))
             | .unmodelled => none
             | _ => some "enc=err")
          | .unmodelled => none
          | _ => some "new=err")
     | _, _, _ => some "bad-op")
  | _ => some "bad-op"

/-! ### ECDSA codec -/

def parseSigned (s : String) : Option Int :=
  if s.startsWith "-" then
    (unhexArg (s.drop 1).toString).bind fun o => o.map fun b => -(os2ip b : Int)
  else (unhexArg s).bind fun o => o.map fun b => (os2ip b : Int)

def opEcEnc (a : List String) : M String :=
  match a with
  | cn :: rs :: ss :: _ =>
    (match parseSigned rs, parseSigned ss with
     | some r, some s =>
       (match encodeECDSASignature (orderSize (curveBits cn)) r s with
        | some sig => some ("ok " ++ hexOfBytes sig)
        | none => some "err")
     | _, _ => some "bad-op")
  | _ => some "bad-op"

/-- `ecenc2 ALG CURVE R S`: the width comes from the KEY's curve, whatever the algorithm -/
def opEcEnc2 (a : List String) : M String :=
  match a with
  | _alg :: cn :: rs :: ss :: _ => opEcEnc [cn, rs, ss]
  | _ => some "bad-op"

/-- `khist h1,h2,…`: successive decodes into ONE Key variable; after a successful decode the key
    is the fresh decoding (state of earlier decodes must not survive) -/
def opKHist (a : List String) : M String :=
  match a with
  | steps :: _ =>
    (match mapM' (fun s => (unhexArg s).bind id) (splitOnChar ',' steps) with
     | some bs =>
       let outs := bs.map fun b =>
         match Key.unmarshal b with
         | .ok k => some ("ok:" ++ k.dump ++ ":" ++ okAlg k.signer ++ ":" ++
             (match k.verifier true, k.verifier false with
              | .ok a, .error _ => "OC(ok:" ++ intStr a ++ ")"
              | r, _ => okAlg r))
         | .err _ => some "err"
         | .panic => some "panic"
         | .unmodelled => none
       (mapM' id outs).map (joinWith " ")
     | none => some "bad-op")
  | _ => some "bad-op"

def opEcDec (a : List String) : M String :=
  match a with
  | cn :: _seed :: sigs :: _ =>
    (match unhexArg sigs with
     | some (some sig) =>
       (match decodeECDSASignature (orderSize (curveBits cn)) sig with
        | none => some "sigres=err verification"
        | some _ => some "sigres=?oracle")
     | _ => some "bad-op")
  | _ => some "bad-op"

/-! ### NewSigner / NewVerifier -/

def keyKindOf : String → Option KeyKind
  | "rsa1024" => some (.rsa 1024) | "rsa2047" => some (.rsa 2047) | "rsa2048" => some (.rsa 2048)
  | "rsa3072" => some (.rsa 3072)
  | "p224" => some (.ecdsa false) | "p256" => some (.ecdsa true) | "p384" => some (.ecdsa true)
  | "p521" => some (.ecdsa true) | "w256" => some (.ecdsa true) | "w384" => some (.ecdsa true)
  | "w521" => some (.ecdsa true) | "off256" => some (.ecdsa false) | "inf256" => some (.ecdsa false)
  | "ed25519" => some .ed25519 | "foreign" => some .foreign
  -- an ed25519.PublicKey value of another length than 32 octets is not an Ed25519 key
  | "ed31" => some .foreign | "ed33" => some .foreign | "ed0" => some .foreign
  | "edp16" => some .foreign | "edp32" => some .foreign | "edp48" => some .foreign | "edp63" => some .foreign | "edp65" => some .foreign
  | "edp96" => some .foreign | "edw31" => some .foreign | "edw33" => some .foreign
  -- a pointer to an ed25519.PrivateKey is the key it points to: 64 octets is an Ed25519 key
  | "edq64" => some .ed25519 | "edq16" => some .foreign | "edq32" => some .foreign
  | "edq48" => some .foreign | "edqn" => some .foreign
  | _ => none

def opNew (a : List String) : M String :=
  match a with
  | which :: algs :: kind :: _ =>
    (match parseIntStr algs, keyKindOf kind with
     | some alg, some k =>
       let r := if which = "signer" then newSigner alg k else newVerifier alg k
       (match r with
        | .ok a => some ("ok:" ++ intStr a)
        | .error e => some ("err " ++ e.name))
     | _, _ => some "bad-op")
  | _ => some "bad-op"

/-! ### decode histories (C19): one destination variable per kind -/

inductive Dst
  | s1 (m : Sign1Msg) | sm (m : SignMsg) (nilSigs : Bool) | sig (s : SigV) | ph (m : Option GoMap) | uh (m : Option GoMap)
  | hdrs (h : Hdrs)

def Dst.dump : Dst → String
  | .s1 m => m.dump
  | .sm m n => m.dump n
  | .sig s => s.dump
  | .ph m => (match m with | some x => dumpMap x | none => "{}")
  | .uh m => (match m with | some x => dumpMap x | none => "{}")
  | .hdrs h => h.dump

def startsWithTag : Bytes → Bool
  | b :: _ => b.toNat / 32 = 6
  | [] => false

/-- `Headers.UnmarshalFromRaw` with `RawProtected = P`, `RawUnprotected = U` set by the caller:
    protected bucket, then unprotected bucket, then the IV / Partial IV rule across the two;
    `Protected` and `Unprotected` change only when all three pass. -/
def Hdrs.unmarshalFromRaw (P U : Bytes) : Out Hdrs :=
  -- a non-empty bucket must begin with a byte-string resp. map head; a tag in front of either
  -- (which the CBOR library would look through) is refused.  Everything else that is not a
  -- bstr / map is refused by the bucket decoders below, with the same error class.
  if startsWithTag P || startsWithTag U then .err .other else do
  let pm ← Protected.unmarshal P
  let um ← Unprotected.unmarshal U
  if !ensureIV pm um then .err .other
  else .ok { rawP := if P.isEmpty then none else some P, p := pm,
             rawU := if U.isEmpty then none else some U, u := um }

/-- decode `data` into destination `d`: a failed decode leaves `d` exactly as it was -/
def Dst.decode (kind : String) (d : Dst) (data : Bytes) : M (Dst × String) :=
  let fin {α} (o : Out α) (mk : α → Dst) : M (Dst × String) :=
    match o with
    | .ok a => some (mk a, "ok")
    | .err _ => some (d, "err")
    | .panic => some (d, "panic")
    | .unmodelled => none
  match kind with
  | "s1" => fin (Sign1.unmarshal true data) .s1
  | "s1u" => fin (Sign1.unmarshal false data) .s1
  | "sm" => fin (Sign.unmarshal data) (fun m => .sm m false)
  | "sig" => fin (Signature.unmarshal data) .sig
  | "csig" => fin (Signature.unmarshal data) .sig
  | "ph" => fin (Protected.unmarshal data) (fun m => .ph (some m))
  | "uh" => fin (Unprotected.unmarshal data) (fun m => .uh (some m))
  | _ => none

def Dst.init : String → Dst
  | "s1" => .s1 {} | "s1u" => .s1 {} | "sm" => .sm {} true | "sig" => .sig {} | "csig" => .sig {}
  | "ph" => .ph none | _ => .uh none

def histLoop (kind : String) : Dst → List Bytes → List String → M String
  | _, [], outs => some (joinWith " " outs.reverse)
  | d, b :: r, outs =>
    match Dst.decode kind d b with
    | some (d', res) => histLoop kind d' r ((res ++ ":" ++ d'.dump) :: outs)
    | none => none

def histLoopH : Hdrs → List (Bytes × Bytes) → List String → M String
  | _, [], outs => some (joinWith " " outs.reverse)
  | h, (p, u) :: r, outs =>
    match Hdrs.unmarshalFromRaw p u with
    | .ok h' => histLoopH h' r (("ok:" ++ h'.dump) :: outs)
    | .err _ => histLoopH h r (("err:" ++ h.dump) :: outs)
    | .panic => histLoopH h r (("panic:" ++ h.dump) :: outs)
    | .unmodelled => none

def opHist (a : List String) : M String :=
  match a with
  | "hdrs" :: steps :: _ =>
    let pair (s : String) : Option (Bytes × Bytes) :=
      match splitOnChar '~' s with
      | [p, u] => (match bytesOfHex p, bytesOfHex u with
                   | some a, some b => some (a, b)
                   | _, _ => none)
      | _ => none
    (match mapM' pair (splitOnChar ',' steps) with
     | some ps => histLoopH {} ps []
     | none => some "bad-op")
  | kind :: steps :: _ =>
    (match mapM' (fun s => (unhexArg s).bind id) (splitOnChar ',' steps) with
     | some bs => histLoop kind (Dst.init kind) bs []
     | none => some "bad-op")
  | _ => some "bad-op"

/-! ### follow-up operations on decoded values (C06) -/

def tVer : Verifier := { alg := -7, verify := fun tbs sig => if sig = 1 :: 1 :: tbs then .ok () else .err .verification }
def tSig : Signer := { alg := -7, sign := fun tbs => .ok (1 :: 1 :: tbs) }

def optB (o : Out Bytes) : M String :=
  match o with
  | .ok b => some ("ok:" ++ hexOfBytes b)
  | .err e => some ("err " ++ e.name ++ ":-")
  | .panic => some "panic"
  | .unmodelled => none

def useTail (parent : Parent) : M String := do
  let (c0, _) := countersign0 tSig parent none
  let c0s ← optB c0
  let r := Countersignature.sign {} tSig parent (some [1])
  let cfc ← clsU r.out
  pure (" c0=" ++ c0s ++ " cf=" ++ cfc ++ ":" ++ optHexStr r.state.sig)

def opUse (a : List String) : M String :=
  match a with
  | kind :: hexs :: _ =>
    (match unhexArg hexs with
     | some (some data) =>
       let go {α} (o : Out α) (v0 v1 : α → Out Unit) (par : α → Parent) : M String :=
         match o with
         | .ok m => do
           let a ← clsU (v0 m)
           let b ← clsU (v1 m)
           let t ← useTail (par m)
           pure ("dec=ok v0=" ++ a ++ " v1=" ++ b ++ t)
         | .err _ => some "dec=err"
         | .panic => some "panic"
         | .unmodelled => none
       (match kind with
        | "s1" => go (Sign1.unmarshal true data) (fun m => (Sign1.verify m none tVer).1)
                    (fun m => (Sign1.verify m (some [1]) tVer).1) .sign1
        | "s1u" =>
            -- plus: the untagged Go type itself is not a countersignature target
            let cu := match (countersign0 tSig .unsupported none).1 with
              | .err e => "err " ++ e.name | .ok _ => "ok" | _ => "panic"
            (go (Sign1.unmarshal false data) (fun m => (Sign1.verify m none tVer).1)
                    (fun m => (Sign1.verify m (some [1]) tVer).1) .sign1).map fun s =>
              if s.startsWith "dec=ok" then s ++ " cu=" ++ cu ++ " cup=" ++ cu else s
        | "sm" => go (Sign.unmarshal data)
                    (fun m => (Sign.verify m none (m.sigs.map fun _ => tVer)).1)
                    (fun m => (Sign.verify m (some [1]) (m.sigs.map fun _ => tVer)).1) .sign
        | "sig" => go (Signature.unmarshal data)
                    (fun s => (Signature.verify s tVer [0x40] (some []) none).1)
                    (fun s => (Signature.verify s tVer [0x40] (some []) (some [1])).1) .signature
        | "csig" =>
            let tgt : Parent := .sign1 { payload := some [], sig := some [1] }
            go (Signature.unmarshal data)
              (fun s => (Countersignature.verify s tVer tgt none).1)
              (fun s => (Countersignature.verify s tVer tgt (some [1])).1) .countersignature
        | _ => some "bad-op")
     | _ => some "bad-op")
  | _ => some "bad-op"

/-! ### header accessors -/

def lookupStr : AlgLookup → String
  | .found a => "ok:" ++ intStr a
  | _ => "err"

def opHAcc (a : List String) : M String :=
  match a with
  | ps :: ts :: cs :: _ =>
    (match parseAll pMapOrNil ps, parseAll pValue ts, parseAll pMapOrNil cs with
     | some h, some typ, some claims =>
       let crit := match critical h with
         | .ok none => "crit=absent"
         | .ok (some l) => "crit=" ++ (GoVal.arr l).dump
         | .panic => "panic"
         | _ => "crit=err"
       let (h1, st) := match setType h typ with
         | .ok h' => (h', "ok")
         | _ => (h, "err")
       let (h2, sc) := match setCWTClaims h1 claims with
         | .ok h' => (h', "ok")
         | _ => (h1, "err")
       some ("alg=" ++ lookupStr (algorithmOf h) ++ " pha=" ++ lookupStr (payloadHashAlgorithm h) ++ " " ++ crit
         ++ " settype=" ++ st ++ " setcwt=" ++ sc ++ " after=" ++ dumpMap h2)
     | _, _, _ => some "bad-op")
  | _ => some "bad-op"

/-! ### decoded values edited and re-used -/

def applyEdit (h : Hdrs) (bucket : String) (entries : GoMap) : Hdrs :=
  if bucket = "p" then { h with p := entries.foldl (fun acc e => acc.set e.1 e.2) h.p, rawP := none }
  else { h with u := entries.foldl (fun acc e => acc.set e.1 e.2) h.u, rawU := none }

def opEdit (a : List String) : M String :=
  match a with
  | kind :: hexs :: bucket :: ms :: _ =>
    (match unhexArg hexs, parseAll pMapOrNil ms with
     | some (some data), some entries =>
       let fin (o : Out Bytes) : M String :=
         match o with
         | .ok enc => (opDec kind enc).map fun d => "dec=ok enc=" ++ hexOfBytes enc ++ " redec=" ++ firstWord d
         | .err _ => some "dec=ok enc=err"
         | .panic => some "panic"
         | .unmodelled => none
       (match kind with
        | "s1" =>
          (match Sign1.unmarshal true data with
           | .ok m => fin (Sign1.marshal true { m with h := applyEdit m.h bucket entries })
           | .err _ => some "dec=err" | .panic => some "panic" | .unmodelled => none)
        | "sig" =>
          (match Signature.unmarshal data with
           | .ok s => fin (Signature.marshal { s with h := applyEdit s.h bucket entries })
           | .err _ => some "dec=err" | .panic => some "panic" | .unmodelled => none)
        | "sm" =>
          (match Sign.unmarshal data with
           | .ok m => fin (Sign.marshal { m with h := applyEdit m.h bucket entries })
           | .err _ => some "dec=err" | .panic => some "panic" | .unmodelled => none)
        | _ => some "bad-op")
     | _, _ => some "bad-op")
  | _ => some "bad-op"

def opResign (a : List String) : M String :=
  match a with
  | tag :: hexs :: exts :: sspec :: _ =>
    (match unhexArg hexs, unhexArg exts, mkSigner sspec with
     | some (some data), some ext, some s =>
       (match Sign1.unmarshal (tag == "t") data with
        | .ok m0 => do
          let m : Sign1Msg := { m0 with sig := none, h := { m0.h with rawP := none } }
          let r := Sign1.sign m ext s
          let signC ← clsU r.out
          let (encS, _) ← encField (Sign1.marshal true r.state)
          pure ("dec=ok sign=" ++ signC ++ " st=" ++ r.state.dump ++ " tbs=" ++ hexList r.calls ++ " enc=" ++ encS)
        | .err _ => some "dec=err"
        | .panic => some "panic"
        | .unmodelled => none)
     | _, _, _ => some "bad-op")
  | _ => some "bad-op"

def xorAt (b : Bytes) (idx xor : Nat) : Bytes :=
  b.mapIdx fun i x => if i = idx then UInt8.ofNat (x.toNat ^^^ xor) else x

def opVTwice (a : List String) : M String :=
  match a with
  | kind :: hexs :: exts :: vs :: idxs :: xors :: _ =>
    (match unhexArg hexs, unhexArg exts, mapM' mkVerifier (listArg vs), idxs.toNat?, xors.toNat? with
     | some (some data), some ext, some verifiers, some idx, some xor =>
       (match kind with
        | "s1" =>
          (match verifiers.head?, Sign1.unmarshal true data with
           | some v, .ok m => do
             let (r1, c1) := Sign1.verify m ext v
             let m' : Sign1Msg := { m with h := { m.h with rawP := m.h.rawP.map fun b => xorAt b idx xor } }
             let (r2, c2) := Sign1.verify m' ext v
             let a1 ← clsU r1
             let a2 ← clsU r2
             pure ("dec=ok ver=" ++ a1 ++ " vtbs=" ++ hexList c1 ++ " ver2=" ++ a2 ++ " vtbs2=" ++ hexList c2)
           | none, _ => some "bad-op"
           | _, .err _ => some "dec=err" | _, .panic => some "panic" | _, .unmodelled => none)
        | "sm" =>
          (match Sign.unmarshal data with
           | .ok m => do
             let (r1, c1) := Sign.verify m ext verifiers
             let m' : SignMsg := { m with h := { m.h with rawP := m.h.rawP.map fun b => xorAt b idx xor } }
             let (r2, c2) := Sign.verify m' ext verifiers
             let a1 ← clsU r1
             let a2 ← clsU r2
             pure ("dec=ok ver=" ++ a1 ++ " vtbs=" ++ hexList c1 ++ " ver2=" ++ a2 ++ " vtbs2=" ++ hexList c2)
           | .err _ => some "dec=err" | .panic => some "panic" | .unmodelled => none)
        | _ => some "bad-op")
     | _, _, _, _, _ => some "bad-op")
  | _ => some "bad-op"

def opSMEmpty (a : List String) : M String :=
  match a with
  | hexs :: idxs :: how :: _ =>
    (match unhexArg hexs, idxs.toNat? with
     | some (some data), some idx =>
       (match Sign.unmarshal data with
        | .ok m =>
          let sigs := m.sigs.mapIdx fun i s => if i = idx then { s with sig := if how = "nil" then none else some [] } else s
          (match Sign.marshal { m with sigs := sigs } with
           | .ok enc => some ("dec=ok enc=" ++ hexOfBytes enc)
           | .err _ => some "dec=ok enc=err"
           | .panic => some "panic"
           | .unmodelled => none)
        | .err _ => some "dec=err" | .panic => some "panic" | .unmodelled => none)
     | _, _ => some "bad-op")
  | _ => some "bad-op"

/-- `empt KIND HEX nil|empty`: a decoded one-signature structure whose signature was emptied -/
def opEmpt (a : List String) : M String :=
  match a with
  | kind :: hexs :: how :: _ =>
    (match unhexArg hexs with
     | some (some data) =>
       let e : Option Bytes := if how = "nil" then none else some []
       let fin (o : Out Bytes) : M String :=
         match o with
         | .ok enc => some ("dec=ok enc=" ++ hexOfBytes enc ++ " empty-signature-emitted")
         | .err _ => some "dec=ok enc=err"
         | .panic => some "panic"
         | .unmodelled => none
       (match kind with
        | "s1" | "s1u" =>
          (match Sign1.unmarshal (kind == "s1") data with
           | .ok m => fin (Sign1.marshal (kind == "s1") { m with sig := e })
           | .err _ => some "dec=err" | .panic => some "panic" | .unmodelled => none)
        | "sig" | "csig" =>
          (match Signature.unmarshal data with
           | .ok s => fin (Signature.marshal { s with sig := e })
           | .err _ => some "dec=err" | .panic => some "panic" | .unmodelled => none)
        | _ => some "bad-op")
     | _ => some "bad-op")
  | _ => some "bad-op"

/-! ### dispatch -/

def runLine (line : String) : String :=
  let f := (line.splitOn " ").filter (· ≠ "")
  let r : M String :=
    match f with
    | [] => some "skip"
    | "dec" :: kind :: hexs :: _ =>
      (match unhexArg hexs with
       | some (some data) => opDec kind data
       | _ => some "bad-op")
    | "enc" :: kind :: spec :: _ => opEnc kind spec
    | "reenc" :: kind :: hexs :: mode :: n :: _ =>
      (match unhexArg hexs with
       | some (some data) => opReenc kind data (if mode == "clear" then some none else if mode == "trunc" then some (some []) else none) (n.toNat?.getD 1) []
       | _ => some "bad-op")
    | "s1" :: a => opS1 a
    | "s1h" :: a => opS1H a
    | "v1" :: a => opV1 a
    | "sm" :: a => opSM a
    | "vm" :: a => opVM a
    | "cs" :: a => opCS a
    | "he" :: a => opHE a
    | "hev" :: a => opHEV a
    | "keyuse" :: a => opKeyUse a
    | "keyrt" :: a => opKeyRT a
    | "ecenc" :: a => opEcEnc a
    | "ecdec" :: a => opEcDec a
    | "ecenc2" :: a => opEcEnc2 a
    | "khist" :: a => opKHist a
    | "new" :: a => opNew a
    | "hist" :: a => opHist a
    | "use" :: a => opUse a
    | "hacc" :: a => opHAcc a
    | "edit" :: a => opEdit a
    | "resign" :: a => opResign a
    | "vtwice" :: a => opVTwice a
    | "smempty" :: a => opSMEmpty a
    | "empt" :: a => opEmpt a
    | _ => some "bad-op"
  match r with
  | some s => s
  | none => "unmodelled"

end CoseModel
