/-
  CoseModel.Headers — headers.go: label normalisation, the per-label validation table,
  crit validation, the alg accessors and the algorithm-agreement checks; plus the generic
  decode of CBOR into Go values (`decMode.Unmarshal(data, &any)`).
-/
import CoseModel.GoVal
namespace CoseModel

def maxInt64 : Nat := 9223372036854775807

/-! ### UTF-8 validity (Go `utf8.Valid`) -/

def utf8Valid : Bytes → Bool
  | [] => true
  | b0 :: r =>
    let c := b0.toNat
    if c < 0x80 then utf8Valid r
    else if c < 0xC2 then false
    else if c < 0xE0 then
      match r with
      | b1 :: r' => (0x80 ≤ b1.toNat && b1.toNat ≤ 0xBF) && utf8Valid r'
      | _ => false
    else if c < 0xF0 then
      match r with
      | b1 :: b2 :: r' =>
        let lo := if c = 0xE0 then 0xA0 else 0x80
        let hi := if c = 0xED then 0x9F else 0xBF
        (lo ≤ b1.toNat && b1.toNat ≤ hi) && (0x80 ≤ b2.toNat && b2.toNat ≤ 0xBF) && utf8Valid r'
      | _ => false
    else if c < 0xF5 then
      match r with
      | b1 :: b2 :: b3 :: r' =>
        let lo := if c = 0xF0 then 0x90 else 0x80
        let hi := if c = 0xF4 then 0x8F else 0xBF
        (lo ≤ b1.toNat && b1.toNat ≤ hi) && (0x80 ≤ b2.toNat && b2.toNat ≤ 0xBF)
          && (0x80 ≤ b3.toNat && b3.toNat ≤ 0xBF) && utf8Valid r'
      | _ => false
    else false

/-! ### type predicates (headers.go:636-675) -/

def canInt : GoVal → Bool
  | .int _ _ => true
  | _ => false

def canUint : GoVal → Bool
  | .int k v => if k.signed then v ≥ 0 else true
  | _ => false

/-- `canTstr` (headers.go:730): a Go string that is valid UTF-8 (the decoder refuses any
    other text string) -/
def canTstr : GoVal → Bool
  | .str b => utf8Valid b
  | _ => false

/-- a typed-nil `[]byte` is not a byte string: the encoder would emit `null` for it -/
def canBstr : GoVal → Bool
  | .bytes _ => true
  | _ => false

/-- the Go conversion `int64(v)` -/
def wrap64 (v : Int) : Int :=
  let m := v % 18446744073709551616
  if m ≥ 9223372036854775808 then m - 18446744073709551616 else m

/-- `uint` and `uint64`: the two Go integer types with values above `math.MaxInt64` -/
def IntKind.wide (k : IntKind) : Bool := k = .u || k = .u64

@[simp] theorem IntKind.wide_i : IntKind.wide .i = false := rfl
@[simp] theorem IntKind.wide_i8 : IntKind.wide .i8 = false := rfl
@[simp] theorem IntKind.wide_i16 : IntKind.wide .i16 = false := rfl
@[simp] theorem IntKind.wide_i32 : IntKind.wide .i32 = false := rfl
@[simp] theorem IntKind.wide_i64 : IntKind.wide .i64 = false := rfl
@[simp] theorem IntKind.wide_u : IntKind.wide .u = true := rfl
@[simp] theorem IntKind.wide_u8 : IntKind.wide .u8 = false := rfl
@[simp] theorem IntKind.wide_u16 : IntKind.wide .u16 = false := rfl
@[simp] theorem IntKind.wide_u32 : IntKind.wide .u32 = false := rfl
@[simp] theorem IntKind.wide_u64 : IntKind.wide .u64 = true := rfl

/-- `normalizeLabel` (headers.go:744): every Go integer type is converted to `int64` — a `uint`
    / `uint64` above `math.MaxInt64` is refused (`return nil, false`), no other type has such
    values —, strings pass, anything else is refused. -/
def normalizeLabel : GoVal → Option GoVal
  | .int k v => if k.wide && v > maxInt64 then none else some (.int .i64 (wrap64 v))
  | .str b => some (.str b)
  | _ => none

theorem normalizeLabel_int_eq_some {k : IntKind} {v : Int} {n : GoVal}
    (h : normalizeLabel (.int k v) = some n) : n = .int .i64 (wrap64 v) := by
  simp only [normalizeLabel] at h
  split at h
  · cases h
  · exact (Option.some.inj h).symm

theorem normalizeLabel_int_of_le (k : IntKind) {v : Int} (hv : v ≤ maxInt64) :
    normalizeLabel (.int k v) = some (.int .i64 (wrap64 v)) := by
  have : ¬ v > (maxInt64 : Int) := by omega
  simp [normalizeLabel, this]

theorem normalizeLabel_int_of_narrow {k : IntKind} (hk : k.wide = false) (v : Int) :
    normalizeLabel (.int k v) = some (.int .i64 (wrap64 v)) := by
  simp [normalizeLabel, hk]

theorem normalizeLabel_int_eq_none {k : IntKind} {v : Int} :
    normalizeLabel (.int k v) = none ↔ k.wide = true ∧ v > maxInt64 := by
  simp only [normalizeLabel]
  split <;> simp_all

/-- `lookupLabel` / `hasLabel`: the entry stored under `label`, whichever Go integer type
    spells the key (exact key first, else the first key that normalises to the same label). -/
def lookupLabel (h : GoMap) (label : GoVal) : Option GoVal :=
  match h.lookup label with
  | some v => some v
  | none =>
    match normalizeLabel label with
    | none => none
    | some want =>
      match h.find? (fun e => match normalizeLabel e.1 with
                              | some got => got.keyEq want
                              | none => false) with
      | some e => some e.2
      | none => none

def hasLabel (h : GoMap) (label : GoVal) : Bool := (lookupLabel h label).isSome

/-- type/subtype text check used for content type (3) and typ (16) -/
def countSlash : Bytes → Nat
  | [] => 0
  | b :: r => (if b = 0x2f then 1 else 0) + countSlash r

def mediaTypeOK (v : Bytes) : Bool :=
  match v with
  | [] => false
  | b :: _ =>
    b != 0x20 && v.getLast? != some 0x20 && countSlash v = 1

def tstrOrUintOK (value : GoVal) : Bool :=
  match value with
  | .str v => canTstr (.str v) && mediaTypeOK v   -- `isTstr := canTstr(value)`; a string is no uint
  | _ => canUint value

/-- a countersignature parameter holds a non-nil `*Countersignature` or a non-empty list of
    non-nil ones -/
def isCsigValue : GoVal → Bool
  | .csig .. => true
  | .csigs cs => !cs.isEmpty && cs.all (fun c => match c with | .csig .. => true | _ => false)
  | _ => false

/-- `ensureCritical` (headers.go:215): value must be `[]any`, non-empty, every entry an
    integer or string that is present in the bucket *under that exact Go key*. -/
def ensureCritical (value : GoVal) (h : GoMap) : Bool :=
  match value with
  | .arr labels =>
    !labels.isEmpty && labels.all (fun l => (canInt l || canTstr l) && hasLabel h l)
  | _ => false

/-- The per-entry checks of `validateHeaderParameters` for normalised label `l`. -/
def checkParam (h : GoMap) (prot : Bool) (l : GoVal) (value : GoVal) : Bool :=
  match l with
  | .int _ 1 => (match value with | .alg _ => true | _ => canInt value || canTstr value)
  | .int _ 2 => prot && ensureCritical value h
  | .int _ 16 => tstrOrUintOK value
  | .int _ 3 => tstrOrUintOK value
  | .int _ 4 => canBstr value
  | .int _ 5 => canBstr value && !hasLabel h (lbl 6)
  | .int _ 6 => canBstr value && !hasLabel h (lbl 5)
  | .int _ 7 => !prot && isCsigValue value
  | .int _ 9 => !prot && canBstr value
  | .int _ 11 => !prot && isCsigValue value
  | .int _ 12 => !prot && canBstr value
  | _ => true

/-- `validateHeaderParameters` (headers.go:510): the loop over the map in the order given
    (Go's order is random; `CoseProofs` shows the verdict does not depend on it). -/
def validateLoop (h : GoMap) (prot : Bool) : GoMap → List GoVal → Bool
  | [], _ => true
  | (label, value) :: rest, existing =>
    match normalizeLabel label with
    | none => false
    | some l =>
      if existing.any (fun e => e.keyEq l) then false
      else if !checkParam h prot l value then false
      else validateLoop h prot rest (l :: existing)

def validateHeaderParameters (h : GoMap) (prot : Bool) : Bool :=
  validateLoop h prot h []

/-- the cross-bucket IV / Partial IV check (`Headers.ensureIV`) -/
def ensureIV (p u : GoMap) : Bool :=
  !((hasLabel p (lbl 5) && hasLabel u (lbl 6)) || (hasLabel p (lbl 6) && hasLabel u (lbl 5)))

def encCfg : EncCfg := { validate := validateHeaderParameters, ensureIV := ensureIV }

/-- `encMode.Marshal` on a model value -/
def marshalAny (v : GoVal) : Out Bytes :=
  if !v.modelled then .unmodelled else
  match encodeAny encCfg v with
  | some b => .ok b
  | none => .err .other

/-! ### alg accessors and agreement checks (headers.go:143-167, 439-485) -/

inductive AlgLookup
  | found (a : Int)
  | notFound
  | failed (e : Err)
  deriving DecidableEq, Repr

/-- `ProtectedHeader.Algorithm()` -/
def algorithmOf (h : GoMap) : AlgLookup :=
  match lookupLabel h (lbl 1) with
  | none => .notFound
  | some (.alg a) => .found a
  | some (.int k v) => if k.signed then .found v else .failed .invalidAlg
  | some (.str _) => .failed .algNotSupported
  | some _ => .failed .invalidAlg

/-- `ensureSigningAlgorithm`: returns the (possibly updated) prot map. -/
def ensureSigningAlgorithm (rawP : Option Bytes) (p : GoMap) (alg : Int) (external : Option Bytes) :
    Out GoMap :=
  match algorithmOf p with
  | .found c => if c = alg then .ok p else .err .algMismatch
  | .notFound =>
    if (external.getD []).length > 0 then .ok p
    else if rawP.isSome then .err .algNotFound
    else .ok (p.set (lbl 1) (.alg alg))
  | .failed e => .err e

def ensureVerificationAlgorithm (p : GoMap) (alg : Int) (external : Option Bytes) : Out Unit :=
  match algorithmOf p with
  | .found c => if c = alg then .ok () else .err .algMismatch
  | .notFound => if (external.getD []).length > 0 then .ok () else .err .algNotFound
  | .failed e => .err e

/-- `ProtectedHeader.Critical()` (headers.go:203): absent → nil; else validated list -/
def critical (h : GoMap) : Out (Option (List GoVal)) :=
  match lookupLabel h (lbl 2) with
  | none => .ok none
  | some v =>
    if ensureCritical v h then
      (match v with
       | .arr l => .ok (some l)
       | _ => .panic)      -- `value.([]any)` is guarded by ensureCritical
    else .err .other

/-- `ProtectedHeader.SetType` (headers.go:120) -/
def setType (h : GoMap) (typ : GoVal) : Out GoMap :=
  if !canTstr typ && !canUint typ then .err .other else .ok (h.set (lbl 16) typ)

/-- `ProtectedHeader.SetCWTClaims` (headers.go:129): iss (1) and sub (2), when present under the
    `int` keys the method looks up, must be text -/
def setCWTClaims (h : GoMap) (claims : GoMap) : Out GoMap :=
  let bad (n : Int) : Bool := match claims.lookup (.int .i n) with
    | some v => !canTstr v
    | none => false
  if bad 1 || bad 2 then .err .other else .ok (h.set (lbl 15) (.map claims))

/-! ### generic decode (`decMode.Unmarshal(data, &v)` with `v any`) on an already
    well-formed item -/

def keyHashable : GoVal → Bool
  | .arr _ => false
  | .map _ => false
  | _ => true

mutual
def decodeAny : Wire → Out GoVal
  | .uint _ n => if n ≤ maxInt64 then .ok (.int .i64 n) else .err .other
  | .nint _ n => if n ≤ maxInt64 then .ok (.int .i64 (-1 - (n : Int))) else .unmodelled
  | .bstr _ b => .ok (.bytes b)
  | .tstr _ b => if utf8Valid b then .ok (.str b) else .err .other
  | .tag .. => .unmodelled
  | .prim .imm n =>
      if n < 20 then .ok (.simple n)
      else if n = 20 then .ok (.bool false)
      else if n = 21 then .ok (.bool true)
      else .ok .nil
  | .prim .w1 n => .ok (.simple n)
  | .prim .w8 n => .ok (.float n)
  | .prim _ _ => .unmodelled
  | .arr _ xs => match decodeList xs with
      | .ok l => .ok (.arr l)
      | .err e => .err e
      | .panic => .panic
      | .unmodelled => .unmodelled
  | .map _ kvs => match decodePairs kvs [] with
      | .ok l => .ok (.map l)
      | .err e => .err e
      | .panic => .panic
      | .unmodelled => .unmodelled
def decodeList : List Wire → Out (List GoVal)
  | [] => .ok []
  | x :: xs => match decodeAny x, decodeList xs with
      | .ok a, .ok b => .ok (a :: b)
      | .err e, _ => .err e
      | .ok _, .err e => .err e
      | .panic, _ => .panic
      | _, .panic => .panic
      | _, _ => .unmodelled
/-- map entries, with duplicate detection after conversion (`DupMapKeyEnforcedAPF`);
    byte-string and float keys are outside the modelled region -/
def decodePairs : List (Wire × Wire) → GoMap → Out GoMap
  | [], acc => .ok acc.reverse
  | (k, v) :: r, acc =>
    match decodeAny k with
    | .ok key =>
      (match key with
       | .bytes _ => .unmodelled
       | .float _ => .unmodelled
       | _ =>
        if !keyHashable key then .err .other else
        match decodeAny v with
        | .ok value =>
          if acc.any (fun e => e.1.keyEq key) then .err .other
          else decodePairs r ((key, value) :: acc)
        | .err e => .err e
        | .panic => .panic
        | .unmodelled => .unmodelled)
    | .err e => .err e
    | .panic => .panic
    | .unmodelled => .unmodelled
end

end CoseModel
