/-
  CoseModel.GoVal — Go values as they occur in go-cose header maps (`map[any]any`), and the
  library's CBOR encoder (`encMode`: core-deterministic key sort, definite lengths) on them.
-/
import CoseModel.Cbor
namespace CoseModel

/-- The ten Go integer types a label or value can be spelt with. -/
inductive IntKind | i | i8 | i16 | i32 | i64 | u | u8 | u16 | u32 | u64
  deriving DecidableEq, Repr, Inhabited

def IntKind.signed : IntKind → Bool
  | .i | .i8 | .i16 | .i32 | .i64 => true
  | _ => false

def IntKind.name : IntKind → String
  | .i => "i" | .i8 => "i8" | .i16 => "i16" | .i32 => "i32" | .i64 => "i64"
  | .u => "u" | .u8 => "u8" | .u16 => "u16" | .u32 => "u32" | .u64 => "u64"

/-- inclusive range of the Go type (int/uint are 64-bit on the platforms the harness runs) -/
def IntKind.lo : IntKind → Int
  | .i | .i64 => -9223372036854775808 | .i8 => -128 | .i16 => -32768 | .i32 => -2147483648
  | _ => 0
def IntKind.hi : IntKind → Int
  | .i | .i64 => 9223372036854775807 | .i8 => 127 | .i16 => 32767 | .i32 => 2147483647
  | .u | .u64 => 18446744073709551615 | .u8 => 255 | .u16 => 65535 | .u32 => 4294967295

/-- Go values.  `csig` is a non-nil `*Countersignature` (fields of its `Headers` and its
    signature); `csigNil` a nil one; `csigs` a `[]*Countersignature` (elements `csig`/`csigNil`);
    `csigsNil` the nil slice of that type.  `bytesNil` is `[]byte(nil)` stored in an `any`.
    `crv` is a `cose.Curve` (COSE_Key params). `opaque` is any other Go type. -/
inductive GoVal
  | nil
  | int (k : IntKind) (v : Int)
  | alg (v : Int)
  | crv (v : Int)
  | str (b : Bytes)
  | bytes (b : Bytes)
  | bytesNil
  | bool (b : Bool)
  | simple (n : Nat)
  | float (bits : Nat)
  | arr (xs : List GoVal)
  | map (kvs : List (GoVal × GoVal))
  | csig (rawP : Option Bytes) (p : List (GoVal × GoVal))
         (rawU : Option Bytes) (u : List (GoVal × GoVal)) (sig : Option Bytes)
  | csigNil
  | csigs (cs : List GoVal)
  | csigsNil
  | opaque
  deriving Repr, Inhabited

abbrev GoMap := List (GoVal × GoVal)

/-- Go `==` on interface values holding comparable types, as used for map keys.
    Only the key types the model admits as keys are compared by value. -/
def GoVal.keyEq : GoVal → GoVal → Bool
  | .int k v, .int k' v' => k = k' && v = v'
  | .alg v, .alg v' => v = v'
  | .crv v, .crv v' => v = v'
  | .str b, .str b' => b = b'
  | .bool b, .bool b' => b = b'
  | .simple n, .simple n' => n = n'
  | .float n, .float n' => n = n'
  | .nil, .nil => true
  | _, _ => false

def GoMap.lookup (h : GoMap) (k : GoVal) : Option GoVal :=
  match h.find? (fun e => e.1.keyEq k) with
  | some e => some e.2
  | none => none

def GoMap.has (h : GoMap) (k : GoVal) : Bool := (h.lookup k).isSome

/-- map assignment `h[k] = v` -/
def GoMap.set (h : GoMap) (k v : GoVal) : GoMap :=
  if h.has k then h.map (fun e => if e.1.keyEq k then (e.1, v) else e) else h ++ [(k, v)]

def GoMap.erase (h : GoMap) (k : GoVal) : GoMap := h.filter (fun e => !e.1.keyEq k)

def lbl (n : Int) : GoVal := .int .i64 n

/-! ### the encoder -/

def encHead (m n : Nat) : Bytes := headBytes m (HW.shortest n) n

def encInt (v : Int) : Bytes :=
  if v ≥ 0 then encHead 0 v.toNat else encHead 1 (-1 - v).toNat

def encBstr (b : Bytes) : Bytes := encHead 2 b.length ++ b
def encTstr (b : Bytes) : Bytes := encHead 3 b.length ++ b

def be8 (n : Nat) : Bytes :=
  [UInt8.ofNat (n / 72057594037927936), UInt8.ofNat (n / 281474976710656 % 256),
   UInt8.ofNat (n / 1099511627776 % 256), UInt8.ofNat (n / 4294967296 % 256),
   UInt8.ofNat (n / 16777216 % 256), UInt8.ofNat (n / 65536 % 256),
   UInt8.ofNat (n / 256 % 256), UInt8.ofNat (n % 256)]

/-- `float64` under the encoder defaults: 8 bytes, except NaN → `f9 7e00` (NaNConvert7e00) and
    ±Inf → `f9 7c00` / `f9 fc00` (InfConvertFloat16) -/
def encFloat (bits : Nat) : Bytes :=
  if bits / 4503599627370496 % 2048 = 2047 then
    (if bits % 4503599627370496 ≠ 0 then [0xf9, 0x7e, 0x00]
     else if bits / 9223372036854775808 % 2 = 1 then [0xf9, 0xfc, 0x00] else [0xf9, 0x7c, 0x00])
  else 0xfb :: be8 bits

/-- sort encoded (key, value) pairs bytewise by key — `SortCoreDeterministic` -/
def sortPairs (l : List (Bytes × Bytes)) : List (Bytes × Bytes) :=
  l.mergeSort (fun a b => bytesLe a.1 b.1)

def concatPairs : List (Bytes × Bytes) → Bytes
  | [] => []
  | (k, v) :: r => k ++ (v ++ concatPairs r)

def optBytesEnc : Option Bytes → Bytes
  | none => [0xf6]
  | some b => encBstr b

/-- `RawMessage.MarshalCBOR`: the bytes verbatim; nil/empty gives `f6`. -/
def rawMsgEnc : Option Bytes → Bytes
  | some (b :: bs) => b :: bs
  | _ => [0xf6]

/-- Hooks the encoder needs from header validation (defined in `Headers.lean`);
    passed as a parameter to keep the mutual block small. -/
structure EncCfg where
  validate : GoMap → Bool → Bool
  ensureIV : GoMap → GoMap → Bool

/-
  encodeAny: `encMode.Marshal(v)` for a Go value `v` of the model.
  `none` = the encoder returns an error; values of unmodelled type make the whole
  encoding `unmodelled` (tracked by `GoVal.modelled`).
-/
mutual
def encodeAny (cfg : EncCfg) : GoVal → Option Bytes
  | .nil => some [0xf6]
  | .int _ v => some (encInt v)
  | .alg v => some (encInt v)
  | .crv v => some (encInt v)
  | .str b => some (encTstr b)
  | .bytes b => some (encBstr b)
  | .bytesNil => some [0xf6]
  | .bool b => some [if b then 0xf5 else 0xf4]
  | .simple n => some (encHead 7 n)
  | .float bits => some (encFloat bits)
  | .arr xs => match encodeList cfg xs with
      | some b => some (encHead 4 xs.length ++ b)
      | none => none
  | .map kvs => match encodePairs cfg kvs with
      | some ps => some (encHead 5 kvs.length ++ concatPairs (sortPairs ps))
      | none => none
  | .csig rawP p rawU u sig =>
      -- Countersignature.MarshalCBOR = Signature.MarshalCBOR (sign.go:66)
      match sig with
      | none => none
      | some [] => none
      | some (s :: ss) =>
        if !cfg.ensureIV p u then none else
        match encodeBucket cfg true rawP p, encodeBucket cfg false rawU u with
        | some pb, some ub => some (0x83 :: (pb ++ (ub ++ encBstr (s :: ss))))
        | _, _ => none
  | .csigNil => some [0xf6]
  | .csigs cs => match encodeList cfg cs with
      | some b => some (encHead 4 cs.length ++ b)
      | none => none
  | .csigsNil => some [0xf6]
  | .opaque => none
def encodeList (cfg : EncCfg) : List GoVal → Option Bytes
  | [] => some []
  | x :: xs => match encodeAny cfg x, encodeList cfg xs with
      | some a, some b => some (a ++ b)
      | _, _ => none
def encodePairs (cfg : EncCfg) : List (GoVal × GoVal) → Option (List (Bytes × Bytes))
  | [] => some []
  | (k, v) :: r => match encodeAny cfg k, encodeAny cfg v, encodePairs cfg r with
      | some a, some b, some c => some ((a, b) :: c)
      | _, _, _ => none
/-- `Headers.MarshalProtected` / `MarshalUnprotected` followed by the `RawMessage`
    marshaler: retained raw bytes verbatim when non-empty, else the encoded map
    (`ProtectedHeader.MarshalCBOR` / `UnprotectedHeader.MarshalCBOR`).  The freshly encoded
    unprotected map (not retained raw bytes, not the protected one) must pass
    `decModeWithTagsForbidden.Wellformed` (headers.go:256): in this data domain that refuses
    nesting beyond `maxNested` counted from the bucket's own map, more than `maxElems`
    elements, and the simple values 24..31 (which the encoder writes as `f8 xx`). -/
def encodeBucket (cfg : EncCfg) (prot : Bool) : Option Bytes → List (GoVal × GoVal) → Option Bytes
  | some (b :: bs), _ => some (b :: bs)
  | _, [] => some (if prot then [0x40] else [0xa0])
  | _, e :: es =>
      if !cfg.validate (e :: es) prot then none else
      match encodePairs cfg (e :: es) with
      | some ps =>
          let m := encHead 5 (e :: es).length ++ concatPairs (sortPairs ps)
          if prot then some (encBstr m)
          else if wellformedNoTags m then some m else none
      | none => none
end

-- values whose encoding the model mirrors
mutual
def GoVal.modelled : GoVal → Bool
  | .opaque => false
  | .arr xs => GoVal.modelledList xs
  | .map kvs => GoVal.modelledPairs kvs
  | .csig _ p _ u _ => GoVal.modelledPairs p && GoVal.modelledPairs u
  | .csigs cs => GoVal.modelledList cs
  | _ => true
def GoVal.modelledList : List GoVal → Bool
  | [] => true
  | x :: xs => x.modelled && GoVal.modelledList xs
def GoVal.modelledPairs : List (GoVal × GoVal) → Bool
  | [] => true
  | (k, v) :: r => k.modelled && v.modelled && GoVal.modelledPairs r
end

end CoseModel
