/-
  CoseModel.State — destination variables and read-only operations as state transformers, for
  C18 (read-only, any interleaving equals sequential) and C19 (decode is atomic and
  history-free).  Go's `func (m *T) UnmarshalCBOR(data) error` assigns `*m = msg` only after
  every check has passed (sign1.go:232, sign.go:120, sign.go:372); `decodeInto` is that shape.
-/
import CoseModel.HashEnvelope
import CoseModel.Key
namespace CoseModel

/-- `dst.UnmarshalCBOR(data)` for a decoder `dec`: new value of the destination, returned error -/
def decodeInto (dec : Bytes → Out α) (dst : α) (data : Bytes) : α × Out Unit :=
  match dec data with
  | .ok a => (a, .ok ())
  | .err e => (dst, .err e)
  | .panic => (dst, .panic)
  | .unmodelled => (dst, .unmodelled)

/-- a history: successive decodes into one variable -/
def decodeHistory (dec : Bytes → Out α) (dst : α) (inputs : List Bytes) : α :=
  inputs.foldl (fun d b => (decodeInto dec d b).1) dst

/-- shared values of a concurrent program: one of each structure kind -/
structure Shared where
  s1 : Sign1Msg
  sm : SignMsg
  sig : SigV
  key : Key

/-- read-only operations of the public API, as the threads of C18 issue them -/
inductive ROp
  | verify1 (ext : Option Bytes) (v : Verifier)
  | marshal1 (tagged : Bool)
  | verifyM (ext : Option Bytes) (vs : List Verifier)
  | marshalM
  | marshalSig
  | verifyCsig (v : Verifier) (ext : Option Bytes)
  | verifyCsign0 (v : Verifier) (ext : Option Bytes) (sig : Bytes)
  | verifyHashEnvelope (v : Verifier) (envelope : Bytes)
  | keyVerifier (onCurve : Bool)
  | keyMarshal

inductive RRes
  | unit (o : Out Unit)
  | bytes (o : Out Bytes)
  | alg (o : Except Err Int)
  | msg (ok : Bool)

/-- one atomic step: the new shared state (always the old one) and the result -/
def ROp.step (w : Shared) : ROp → Shared × RRes
  | .verify1 ext v => (w, .unit (Sign1.verify w.s1 ext v).1)
  | .marshal1 t => (w, .bytes (Sign1.marshal t w.s1))
  | .verifyM ext vs => (w, .unit (Sign.verify w.sm ext vs).1)
  | .marshalM => (w, .bytes (Sign.marshal w.sm))
  | .marshalSig => (w, .bytes (Signature.marshal w.sig))
  | .verifyCsig v ext => (w, .unit (Countersignature.verify w.sig v (.sign1 w.s1) ext).1)
  | .verifyCsign0 v ext sig => (w, .unit (CoseModel.verifyCountersign0 v (.sign1 w.s1) ext sig).1)
  | .verifyHashEnvelope v env => (w, .msg (CoseModel.verifyHashEnvelope v env).1.isOk)
  | .keyVerifier oc => (w, .alg (w.key.verifier oc))
  | .keyMarshal => (w, .bytes w.key.marshal)

/-- run a schedule (any interleaving of the threads' operations, flattened) -/
def runSchedule (w : Shared) : List ROp → Shared × List RRes
  | [] => (w, [])
  | op :: rest =>
    let (w1, r) := op.step w
    let (w2, rs) := runSchedule w1 rest
    (w2, r :: rs)

end CoseModel
