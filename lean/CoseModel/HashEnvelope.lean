/-
  CoseModel.HashEnvelope — hash_envelope.go, and the Sign1 / Sign1Untagged helpers (sign1.go:250,307).
-/
import CoseModel.Messages
namespace CoseModel

/-- `Algorithm.hashFunc().Size()`; 0 = no hash function known for this id (algorithm.go:121) -/
def hashSize (alg : Int) : Nat :=
  if alg = -37 ∨ alg = -7 ∨ alg = -16 then 32
  else if alg = -38 ∨ alg = -35 ∨ alg = -43 then 48
  else if alg = -39 ∨ alg = -36 ∨ alg = -44 then 64
  else 0

/-- `validateHash` -/
def validateHash (alg : Int) (value : Option Bytes) : Bool :=
  hashSize alg = 0 || hashSize alg = blen value

structure HashPayload where
  alg : Int
  value : Option Bytes
  pct : Option GoVal      -- PreimageContentType (nil interface = none)
  location : Bytes        -- "" = absent

/-- `setHashEnvelopeProtectedHeader`: a clone of the caller's map with the governed labels set -/
def setHashEnvelopeProtectedHeader (base : GoMap) (p : HashPayload) : GoMap :=
  let h := base.set (lbl 258) (.alg p.alg)
  let h := match p.pct with | some v => h.set (lbl 259) v | none => h
  if p.location.length > 0 then h.set (lbl 260) (.str p.location) else h

/-- `canText` (hash_envelope.go): a Go string that is valid UTF-8 — what the decoder of the
    envelope demands of a text string -/
def canText : GoVal → Bool
  | .str b => utf8Valid b
  | _ => false

theorem canText_canTstr {v : GoVal} (h : canText v = true) : canTstr v = true := by
  cases v <;> simp_all [canText, canTstr]

def hashProtLoop : GoMap → Bool → Option Bool
  | [], found => some found
  | (l, v) :: r, found =>
    match normalizeLabel l with
    | none => none
    | some (.int _ 3) => none
    | some (.int _ 258) =>
      (match v with
       | .alg _ => hashProtLoop r true
       | _ => if canInt v then hashProtLoop r true else none)
    | some (.int _ 259) => if canUint v || canText v then hashProtLoop r found else none
    | some (.int _ 260) => if canText v then hashProtLoop r found else none
    | some _ => hashProtLoop r found

def hashUnprotOK : GoMap → Bool
  | [] => true
  | (l, _) :: r =>
    match normalizeLabel l with
    | none => false
    | some (.int _ 3) => false
    | some (.int _ 258) => false
    | some (.int _ 259) => false
    | some (.int _ 260) => false
    | some _ => hashUnprotOK r

/-- `validateHashEnvelopeHeaders` (on the parsed maps) -/
def validateHashEnvelopeHeaders (p u : GoMap) : Bool :=
  match hashProtLoop p false with
  | some true => hashUnprotOK u
  | _ => false

/-- `Sign1(rand, signer, headers, payload, external)` / `Sign1Untagged`: returned bytes, calls -/
def sign1Helper (tagged : Bool) (h : Hdrs) (payload external : Option Bytes) (s : Signer) :
    Out Bytes × List Bytes :=
  let r := Sign1.sign { h := h, payload := payload, sig := none } external s
  match r.out with
  | .ok _ => (Sign1.marshal tagged r.state, r.calls)
  | .err e => (.err e, r.calls)
  | .panic => (.panic, r.calls)
  | .unmodelled => (.unmodelled, r.calls)

/-- `SignHashEnvelope` -/
def signHashEnvelope (s : Signer) (h : Hdrs) (p : HashPayload) : Out Bytes × List Bytes :=
  if !validateHash p.alg p.value then (.err .other, [])
  else
    let prot := setHashEnvelopeProtectedHeader h.p p
    -- non-empty RawUnprotected is what gets emitted: it is decoded and validated
    let unprot : Out GoMap := match h.rawU with
      | some (b :: bs) => Unprotected.unmarshal (b :: bs)
      | _ => .ok h.u
    match unprot with
    | .ok u =>
      if !validateHashEnvelopeHeaders prot u then (.err .other, [])
      else sign1Helper true { h with p := prot, rawP := none, u := u } p.value none s
    | .err e => (.err e, [])
    | .panic => (.panic, [])
    | .unmodelled => (.unmodelled, [])

/-- `ProtectedHeader.PayloadHashAlgorithm()` -/
def payloadHashAlgorithm (h : GoMap) : AlgLookup :=
  match lookupLabel h (lbl 258) with
  | none => .notFound
  | some (.alg a) => .found a
  | some (.int k v) => if k.signed then .found v else .failed .invalidAlg
  | some _ => .failed .invalidAlg

/-- `VerifyHashEnvelope` -/
def verifyHashEnvelope (v : Verifier) (envelope : Bytes) : Out Sign1Msg × List Bytes :=
  match Sign1.unmarshal true envelope with
  | .ok m =>
    if !validateHashEnvelopeHeaders m.h.p m.h.u then (.err .other, [])
    else
      (match Sign1.verify m none v with
       | (.ok _, calls) =>
         (match payloadHashAlgorithm m.h.p with
          | .found a =>
            let m' : Sign1Msg := { m with h := { m.h with p := m.h.p.set (lbl 258) (.alg a) } }
            if validateHash a m.payload then (.ok m', calls) else (.err .other, calls)
          | .notFound => (.err .algNotFound, calls)
          | .failed e => (.err e, calls))
       | (.err e, calls) => (.err e, calls)
       | (.panic, calls) => (.panic, calls)
       | (.unmodelled, calls) => (.unmodelled, calls))
  | .err e => (.err e, [])
  | .panic => (.panic, [])
  | .unmodelled => (.unmodelled, [])

/-! ### NewSigner / NewVerifier (signer.go:60, verifier.go:51) -/

inductive KeyKind
  | rsa (bits : Nat)
  | ecdsa (ecdhOK : Bool)      -- an ECDSA key; `ecdhOK` = crypto/ecdh accepts curve and point
  | ed25519
  | foreign
  deriving Repr, DecidableEq

/-- the `switch alg` of NewSigner / NewVerifier -/
inductive Family | rsaPss | ecdsa | eddsa | none
  deriving DecidableEq, Repr

def familyOf (alg : Int) : Family :=
  if alg = -37 ∨ alg = -38 ∨ alg = -39 then .rsaPss
  else if alg = -7 ∨ alg = -35 ∨ alg = -36 then .ecdsa
  else if alg = -8 then .eddsa
  else .none

/-- `NewSigner(alg, key)`: the signer's reported algorithm or the error class -/
def newSigner (alg : Int) (k : KeyKind) : Except Err Int :=
  match familyOf alg, k with
  | .rsaPss, .rsa bits => if bits < 2048 then .error .other else .ok alg
  | .rsaPss, _ => .error .invalidPub
  | .ecdsa, .ecdsa _ => .ok alg
  | .ecdsa, _ => .error .invalidPub
  | .eddsa, .ed25519 => .ok (-8)
  | .eddsa, _ => .error .invalidPub
  | .none, _ => .error .algNotSupported

/-- `NewVerifier(alg, key)` -/
def newVerifier (alg : Int) (k : KeyKind) : Except Err Int :=
  match familyOf alg, k with
  | .rsaPss, .rsa bits => if bits < 2048 then .error .other else .ok alg
  | .rsaPss, _ => .error .invalidPub
  | .ecdsa, .ecdsa true => .ok alg
  | .ecdsa, _ => .error .invalidPub
  | .eddsa, .ed25519 => .ok (-8)
  | .eddsa, _ => .error .invalidPub
  | .none, _ => .error .algNotSupported

end CoseModel
