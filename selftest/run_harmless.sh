#!/bin/sh
# selftest/run_harmless.sh DIFF — development aid: applies a behaviour-preserving change to a scratch worktree of
# /repo and runs every quick check against it.  Reports, per property, the VIOLATION lines raised:
# a line ending in no-failing-input-found is a broken tie (expected for changes to pinned / tabulated
# functions: the property is "no longer shown to hold" until the model is reviewed); any other line is a FALSE ALARM.
set -u
DIFF=$(readlink -f "$1")
VERIF=$(cd "$(dirname "$0")/.." && pwd)
WS=$(mktemp -d /tmp/ws-XXXXXX)
TAG=$(printf %s "$WS" | sha1sum | cut -c1-8)
export GOFLAGS=-mod=mod GOPROXY=off GOSUMDB=off GOTOOLCHAIN=local
cleanup() { git -C /repo worktree remove --force "$WS" >/dev/null 2>&1; rm -rf "$WS" /tmp/verif-lean-"$TAG"* "$VERIF/harness/bin/cosedrive-$TAG" "$VERIF/harness/bin/cosedrive-race-$TAG" /tmp/ev.$$; }
trap cleanup EXIT
git -C /repo worktree add -q --detach "$WS" HEAD || exit 2
cd "$WS" && git apply "$DIFF" || { echo "patch does not apply"; exit 2; }
go build ./... || { echo "does not compile"; exit 2; }
if go test -count=1 ./... >/dev/null 2>&1; then echo "suite: PASS"; else echo "suite: FAIL"; fi
cd "$VERIF"
VERIF_REPO="$WS" VERIF_EVIDENCE_DIR=/tmp/ev.$$ ./check all --tier quick > /tmp/harmless.$$ 2>&1
grep -E "^VIOLATION" /tmp/harmless.$$ | sed 's/replay=[^ ]*//' | sort | uniq -c
echo "concrete (false alarms): $(grep -E '^VIOLATION' /tmp/harmless.$$ | grep -vc no-failing-input-found)   tie-only: $(grep -E '^VIOLATION' /tmp/harmless.$$ | grep -c no-failing-input-found)"
grep -E "^VIOLATION" /tmp/harmless.$$ | grep -v no-failing-input-found | head -3
grep -A3 -E "^VIOLATION" /tmp/harmless.$$ | grep -E "op:|impl:|model:" | head -6 | cut -c1-260
rm -f /tmp/harmless.$$
