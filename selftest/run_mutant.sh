#!/bin/sh
# selftest/run_mutant.sh PROP DIFF [DEMO_TEST.go] — development aid (DESIGN.md §11), not a registered check.
# Applies a seeded change to a scratch worktree of /repo (never to /repo itself), confirms that it
# compiles, that the existing suite passes, that the demonstration fails with / passes without it,
# then runs ./check PROP against the scratch tree and reports whether a VIOLATION is raised.
set -u
PROP=$1; DIFF=$(readlink -f "$2"); DEMO=${3:-}
[ -n "$DEMO" ] && DEMO=$(readlink -f "$DEMO")
VERIF=$(cd "$(dirname "$0")/.." && pwd)
WS=$(mktemp -d /tmp/ws-XXXXXX)
TAG=$(printf %s "$WS" | sha1sum | cut -c1-8)
export GOFLAGS=-mod=mod GOPROXY=off GOSUMDB=off GOTOOLCHAIN=local
cleanup() { git -C /repo worktree remove --force "$WS" >/dev/null 2>&1; rm -rf "$WS" "$VERIF/harness/bin/mod-"* /tmp/verif-lean-* "$VERIF/harness/bin/cosedrive-$TAG" "$VERIF/harness/bin/cosedrive-race-$TAG"; }
trap cleanup EXIT
git -C /repo worktree add -q --detach "$WS" HEAD || exit 2
cd "$WS"
if [ -n "$DEMO" ]; then
  cp "$DEMO" zz_demo_test.go
  if go test -count=1 -run 'Demo|demo|Mutant|mutant|ZZ|Zz' . >/tmp/demo_clean.$$ 2>&1; then echo "demo-on-clean: PASS"; else echo "demo-on-clean: FAIL (demo is not valid)"; tail -5 /tmp/demo_clean.$$; fi
  rm -f zz_demo_test.go
fi
git apply "$DIFF" 2>/dev/null || git apply --3way "$DIFF" || { echo "patch does not apply"; exit 2; }
go build ./... || { echo "mutant does not compile"; exit 2; }
if go test -count=1 ./... >/tmp/suite.$$ 2>&1; then echo "suite-with-mutant: PASS"; else echo "suite-with-mutant: FAIL (mutant is not valid)"; tail -5 /tmp/suite.$$; fi
if [ -n "$DEMO" ]; then
  cp "$DEMO" zz_demo_test.go
  if go test -count=1 -run 'Demo|demo|Mutant|mutant|ZZ|Zz' . >/tmp/demo_mut.$$ 2>&1; then echo "demo-with-mutant: PASS (demo does not detect)"; else echo "demo-with-mutant: FAIL (as expected)"; fi
  rm -f zz_demo_test.go
fi
cd "$VERIF"
for P in $(echo "$PROP" | tr ',' ' '); do
  VERIF_REPO="$WS" VERIF_EVIDENCE_DIR=/tmp/ev.$$ ./check "$P" --tier quick > /tmp/check.$$ 2>/tmp/checkerr.$$
  rc=$?
  echo "check $P rc=$rc: $(grep -c VIOLATION /tmp/check.$$) VIOLATION line(s)"
  grep VIOLATION /tmp/check.$$ | head -3
  grep -E "op:|impl:|model:" /tmp/checkerr.$$ | head -3 | cut -c1-300
done
rm -rf /tmp/ev.$$ /tmp/check.$$ /tmp/checkerr.$$ /tmp/suite.$$ /tmp/demo_clean.$$ /tmp/demo_mut.$$
