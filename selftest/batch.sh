#!/bin/sh
# selftest/batch.sh Cxx ... : run every delivered mutant of the given properties through its own property check
for P in "$@"; do
  for i in 1 2 3; do
    D=/tmp/mut/$P/OUT/mutant$i.diff
    [ -f "$D" ] || continue
    echo "=== $P mutant $i"
    ./selftest/run_mutant.sh $P $D /tmp/mut/$P/OUT/demo${i}_test.go 2>&1 | grep -E "demo-|suite-|check |patch|compile" 
  done
done
