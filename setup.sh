#!/bin/sh
# Offline build of the verification machinery (run once after a fresh restore, cwd = /verif).
set -e
cd "$(dirname "$0")"
export GOFLAGS=-mod=mod GOPROXY=off GOSUMDB=off GOTOOLCHAIN=local
mkdir -p harness/bin evidence replays
cp /repo/go.sum harness/go.sum
( cd harness && go build -o bin/extract ./cmd/extract )
./harness/bin/extract /repo > lean/CoseModel/Generated/Facts.lean.new && mv lean/CoseModel/Generated/Facts.lean.new lean/CoseModel/Generated/Facts.lean
( cd lean && lake build )
# first use of `import Lean` (axiom audit) is slow when cold: warm it here
( cd lean && printf 'import CoseProofs.Audit\nimport CoseProofs.Props.C16\n#audit C16\n' > .warm.lean && lake env lean .warm.lean > /dev/null; rm -f .warm.lean )
( cd harness && go build -tags verif -o "bin/cosedrive-$(printf %s /repo | sha1sum | cut -c1-8)" ./cmd/cosedrive )
echo setup done
